#!/bin/bash
for n in "$@"; do git -C /repo worktree remove --force /tmp/wt/$n 2>/dev/null || rm -rf /tmp/wt/$n; done
git -C /repo worktree prune
