#!/bin/bash
# usage: tools/mut.sh <file-in-repo> <python-regex-old> <new> <check ids...>   (applies, runs quick checks, reverts)
f=$1; old=$2; new=$3; shift 3
python3 - "$f" "$old" "$new" <<'PY'
import sys,re
f,old,new=sys.argv[1:4]
p='/repo/'+f; s=open(p).read()
assert old in s, "pattern not found"
open(p,'w').write(s.replace(old,new,1))
PY
[ $? -ne 0 ] && exit 3
for c in "$@"; do
  out=$(/venv/bin/python /verif/check.py $c --tier quick 2>&1 | grep -v WARNING)
  rc=$?
  echo "$c: $(echo "$out" | grep -c '^VIOLATION') violations; $(echo "$out" | grep -E '^  C' | head -3 | cut -c1-200)"
done
git -C /repo checkout -- .
