#!/venv/bin/python
"""Regression self-test: every replay kept under replays/fixed/ demonstrated a genuine defect that has been
repaired by a 'fix:' commit; replaying it now must show that the property holds on that case (exit 0)."""
import glob, os, subprocess, sys
HERE = os.path.dirname(os.path.dirname(os.path.abspath(__file__)))
bad = 0
for f in sorted(glob.glob(os.path.join(HERE, "replays", "fixed", "*.json"))):
    prop = os.path.basename(f).split("-")[0]
    p = subprocess.run([sys.executable, os.path.join(HERE, "check.py"), prop, "--replay", f], capture_output=True, text=True)
    ok = p.returncode == 0
    bad += not ok
    print(("ok  " if ok else "FAIL"), os.path.basename(f), "" if ok else p.stdout[-300:])
sys.exit(1 if bad else 0)
