#!/bin/bash
# tools/mkwt.sh <name>: scratch worktree of /repo HEAD under /tmp/wt/<name> (remove with tools/rmwt.sh <name>)
set -e
mkdir -p /tmp/wt
git -C /repo worktree add -q --detach /tmp/wt/$1 HEAD
cp /repo/src/yaw/_version.py /tmp/wt/$1/src/yaw/_version.py
echo /tmp/wt/$1
