"""Source of truth for MANIFEST.json (run tools/mkmanifest.py after editing)."""

ENGINES = [
    dict(name="vmp", path="/verif/vlib/vmp.py", serves_properties=["C02", "C05", "C09"],
         kind_free_text="virtual multiprocessing on a cooperative scheduler: Pool.imap_unordered with explorer-chosen completion order (stateless + explicit-state with consumer fingerprints), Pool.map/Manager.Queue/Process as baton-passing logical threads with partial-order reduction and deadlock verdicts; runs the real library code"),
    dict(name="enumx", path="/verif/vlib/runner.py", serves_properties=["C01","C02","C03","C04","C10","C11","C12","C13","C14","C15","C17"],
         kind_free_text="bounded-exhaustive enumeration of an explicit finite case space over the real implementation, 16-way fan-out, reference model oracle"),
]

CHECKS = [
    dict(id="C01", engine="enumx", level="exploration", design_ref="DESIGN.md §5 C01, Appendix A",
         technique="bounded-exhaustive enumeration of small rigid worlds (probe pair x fillers x configurations) through the real catalog->tree->linkage->count path against an O(n^2) long-double reference",
         text="Every case of the world/probe/filler/configuration product is created as real catalogs and measured with crosscorrelate and autocorrelate; every count cell (scale, bin, patch i, patch j) of dd/dr/rd/rr and every per-bin per-patch weight sum is compared with a naive pair loop. Because counts are sums over object pairs, a lost or mis-weighted pair has a two-object witness; fillers shape the patch radii that drive pruning.",
         note="Bounds: 2-3 patches, <=16 objects per catalog, 6 (quick) / 16 (thorough) configurations. Cases with a pair within 1e-9 of a scale limit are skipped by rule (none occur with the chosen lattice). Sequential mode; schedules are C05/C06."),
    dict(id="C02", engine="enumx+vmp", level="model_checking", design_ref="DESIGN.md §5 C02, §3 E3b",
         technique="bounded-exhaustive input lattice (length x chunk size x format x dtype x columns x buffer) plus exhaustive exploration of the delivery orders of the reader/worker/writer pipeline on a virtual multiprocessing layer",
         text="Every point of the input lattice is created through the real Catalog.from_* path and the per-patch multisets of stored records (bit patterns) are compared with an independent assignment; in parallel mode every order in which the pool tasks of each chunk deliver to the writer is executed on the real pipeline code.",
         note="Parallel schedules are decided on vlib/vmp.py (model of multiprocessing, validated by free-running conformance runs); input bound n<=7 (10 thorough), W<=3."),
    dict(id="C03", engine="enumx", level="exploration", design_ref="DESIGN.md §5 C03",
         technique="bounded-exhaustive enumeration of count arrays (fingerprint, single-cell, all 0/1) and sample matrices against an explicit-loop leave-one-out reference",
         text="Every container/shape/content of the stated alphabet is pushed through sample_patch_sum, CorrFunc.sample, RedshiftData.from_corrfuncs, HistData.from_catalog and covariance and compared with a leave-one-out recomputation in patch-index order; fingerprint contents make any permuted, lost or doubled patch visible.",
         note="Bounds: <=3 bins, <=5 patches. Linearity argument: all statistics are sums over cells, so single-cell and 0/1 arrays form a basis. End-to-end leave-one-patch-out on real catalogs is part of C13/C01 worlds."),
    dict(id="C04", engine="enumx", level="exploration", design_ref="DESIGN.md §5 C04",
         technique="bounded-exhaustive enumeration of member subsets x contents x binnings against formulas typed from the statement",
         text="All 7 member subsets x auto/cross x contents x binnings are sampled and compared with (DD-DR-RD+RR)/RR resp. DD/DR-1, the n(z) formula and the unit integral; cases are counted non-trivial only if alternative formulas give different numbers on them.",
         note="Where the statement defines nothing (LS without DR) every behaviour is accepted."),
    dict(id="C11", engine="enumx", level="exploration", design_ref="DESIGN.md §5 C11",
         technique="bounded-exhaustive enumeration of persisted products (HDF5, YAML, text, metadata, cache) with write/read-back comparison",
         text="Every product of the stated parameter/content alphabets is written and re-read with the real I/O code and compared field by field (own snapshot comparison, the library's ==, downstream sample()).",
         note="Text precision bound derived from the fixed-width format (truncation to the kept decimals). Catalog cache round trips are covered in depth by C02."),
    dict(id="C12", engine="enumx", level="exploration", design_ref="DESIGN.md §5 C12",
         technique="bounded-exhaustive enumeration of centre lists (all permutations, empty centres, chunked/reversed input), id columns and generated centres against Vincenty containment and nearest-centre references",
         text="All permutations of 2-4 centres x layouts x weights x chunkings, id-column and patch_num modes, and all id-set / displaced-centre pairs of catalogs are run through the real creation and measurement code.",
         note="Between displacement 0 and 'larger than both radii' no demand is made (the statement makes none)."),
    dict(id="C13", engine="enumx", level="exploration", design_ref="DESIGN.md §5 C13",
         technique="bounded-exhaustive enumeration of transformations (rotations, row orders, centre permutations, weight factors, catalog splits) with a two-run relational oracle on the real pipeline",
         text="Every base scenario is measured twice, untransformed and transformed, and amplitudes, samples (permuted accordingly), covariance, n(z) and raw counts are compared.",
         note="Scenarios with a pair within 1e-9 of a scale limit are skipped by rule and counted; non-finite amplitudes are one class."),
    dict(id="C14", engine="enumx", level="exploration", design_ref="DESIGN.md §5 C14",
         technique="bounded-exhaustive enumeration of special-value and lattice coordinates (all ordered pairs, antipodes) against a long-double Vincenty reference",
         text="All ordered pairs of 221 special-value points, an 8192-point generic lattice with exact and near antipodes, direct unit-vector inputs with signed zeros, a distance alphabet and all point sets of size 1-3 are evaluated and compared with exact spherical geometry within conditioning-derived bounds.",
         note="Bounds come from the conditioning of theta=2asin(c/2): min(1e-7, 1e-15(1+2/(pi-theta))). VERIF_SEED only moves the low digits of the lattice."),
    dict(id="C15", engine="enumx", level="exploration", design_ref="DESIGN.md §5 C15",
         technique="bounded-exhaustive enumeration of configuration parameters and of all single/pair modifications against independent references (bisection on astropy distances, r/D(z))",
         text="The full create() parameter product, an invalid-parameter alphabet and every single and pairwise modification of 8 base configurations are compared with reference edges/angles and with create(**merged).",
         note="Interior comoving edges compared to 1e-6 (solver tolerance), outer edges exactly. Merged semantics for switching between custom and generated edges are only exercised where unambiguous (see ASSUMPTIONS in checks/c15.py)."),
    dict(id="C17", engine="enumx", level="exploration", design_ref="DESIGN.md §5 C17",
         technique="bounded-exhaustive enumeration of containers x operations x scalars x index expressions against plain numpy on snapshots",
         text="For every container type/shape/member subset every operator, scalar, integer index, slice and iteration is executed and compared with numpy selections/arithmetics on a snapshot; incompatible operands must raise.",
         note="Empty selections may raise or be empty (not defined by the statement)."),
    dict(id="C05", engine="vmp", level="model_checking", design_ref="DESIGN.md §5 C05, §3 E3a",
         technique="stateless and explicit-state exploration of all feasible completion orders of every Pool.imap_unordered call, running the real entry points under a virtual pool",
         text="For every parallel entry point on fixed caches, every worker count and every pool of the call, all feasible completion orders are executed on the real implementation and the observation is compared bit-wise with the sequential run; plus a joint pass over all pools with <=2 deviations.",
         note="Virtual pool semantics in DESIGN.md Appendix C; conformance against the real multiprocessing.Pool is part of the check (finish hook). Bounds: <=3 (quick) / 4 (thorough) patches."),
    dict(id="C10", engine="enumx", level="exploration", design_ref="DESIGN.md §5 C10",
         technique="bounded-exhaustive enumeration of edge-valued redshift inputs against an interval-predicate reference model",
         text="Every element of an explicit finite input space (edge arrays x closed side x redshifts on/1ulp around every edge x object layouts over two patches x weights) is run through the real catalog->trees->measurement and histogram paths and compared with the interval predicate; exhaustive within the stated alphabet.",
         note="Bounds: <=3 bins, <=2 patches, <=17 objects; float64 comparisons are exact so the oracle is exact. Small-scope hypothesis: membership is decided per object, so one- and two-object witnesses suffice."),
]

_PENDING = "check not built yet in this round (engine planned in DESIGN.md); not claimed until its check exists and is silent on the unchanged tree"
NOT_YET = {f"C{n:02d}": _PENDING for n in range(1, 19) if f"C{n:02d}" not in {c["id"] for c in CHECKS}}

NOTES = "All checks: /venv/bin/python /verif/check.py <ID> --tier quick|thorough; exit 0 held, 1 VIOLATION, 2 harness error. Known findings: /verif/known_findings.json."
