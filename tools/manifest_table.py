"""Source of truth for MANIFEST.json (run tools/mkmanifest.py after editing)."""

ENGINES = [
    dict(name="enumx", path="/verif/vlib/runner.py", serves_properties=["C10"],
         kind_free_text="bounded-exhaustive enumeration of an explicit finite case space over the real implementation, 16-way fan-out, reference model oracle"),
]

CHECKS = [
    dict(id="C10", engine="enumx", level="exploration", design_ref="DESIGN.md §5 C10",
         technique="bounded-exhaustive enumeration of edge-valued redshift inputs against an interval-predicate reference model",
         text="Every element of an explicit finite input space (edge arrays x closed side x redshifts on/1ulp around every edge x object layouts over two patches x weights) is run through the real catalog->trees->measurement and histogram paths and compared with the interval predicate; exhaustive within the stated alphabet.",
         note="Bounds: <=3 bins, <=2 patches, <=17 objects; float64 comparisons are exact so the oracle is exact. Small-scope hypothesis: membership is decided per object, so one- and two-object witnesses suffice."),
]

_PENDING = "check not built yet in this round (engine planned in DESIGN.md); not claimed until its check exists and is silent on the unchanged tree"
NOT_YET = {f"C{n:02d}": _PENDING for n in range(1, 19) if f"C{n:02d}" not in {c["id"] for c in CHECKS}}

NOTES = "All checks: /venv/bin/python /verif/check.py <ID> --tier quick|thorough; exit 0 held, 1 VIOLATION, 2 harness error. Known findings: /verif/known_findings.json."
