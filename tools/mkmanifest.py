#!/usr/bin/env python3
"""Regenerate MANIFEST.json from the table below and validate it (python3-vt has jsonschema)."""
import json, os, sys
HERE = os.path.dirname(os.path.dirname(os.path.abspath(__file__)))
sys.path.insert(0, HERE)
from tools.manifest_table import CHECKS, NOT_YET, ENGINES, NOTES  # noqa

PY = "/venv/bin/python"
checks = []
for c in CHECKS:
    pid = c["id"]
    checks.append(dict(
        property_id=pid,
        quick_cmd=f"{PY} /verif/check.py {pid} --tier quick",
        thorough_cmd=f"{PY} /verif/check.py {pid} --tier thorough",
        evidence_file=f"/verif/evidence/{pid}.json",
        replay_cmd_template=f"{PY} /verif/check.py {pid} --replay {{path}}",
        engine=c["engine"],
        level_claimed=dict(category=c["level"], text=c["text"], design_ref=c["design_ref"]),
        level_note=c["note"],
        technique=c["technique"],
    ))
manifest = dict(
    version=1,
    setup_cmd=f"{PY} /verif/tools/selfcheck.py",
    hooks=dict(
        guard="YAW_VERIF",
        enable="no source hooks are needed: every seam (multiprocessing, mpi4py, file system) is taken from outside the library; checks import /repo/src directly",
        baseline_off_cmd="cd /repo && /venv/bin/python -m pytest -ra -q -p no:cacheprovider --timeout=900 --continue-on-collection-errors",
        source_commits=[],
        add_only=True,
    ),
    engines=ENGINES,
    checks=checks,
    notes=NOTES,
    not_applicable=[dict(property_id=k, reason=v) for k, v in NOT_YET.items()],
)
path = os.path.join(HERE, "MANIFEST.json")
with open(path, "w") as f:
    json.dump(manifest, f, indent=1)
try:
    import jsonschema
    schema = json.load(open("/root/.vp/MANIFEST.schema.json"))
    jsonschema.validate(manifest, schema)
    print("MANIFEST.json valid;", len(checks), "checks,", len(NOT_YET), "not claimed")
except ImportError:
    print("written (jsonschema not importable here; run with python3-vt to validate)")
