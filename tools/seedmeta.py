#!/usr/bin/env python3
"""tools/seedmeta.py <seed-id> <comma separated checks that report it (or 'none')> [note]"""
import json, sys
sid, checks = sys.argv[1], sys.argv[2]
p = f"/verif/seeded/{sid}/meta.json"
m = json.load(open(p))
m["detected_by"] = [] if checks == "none" else checks.split(",")
if len(sys.argv) > 3:
    m["detection_note"] = sys.argv[3]
json.dump(m, open(p, "w"), indent=1)
print(sid, m["detected_by"])
