#!/usr/bin/env python3
"""Maintain known_findings.json: tools/kf.py fixed <prop> <commit> <signature-pattern> <what>
                                 tools/kf.py open  <prop> <signature-pattern> <what>"""
import json, sys, os
P = os.path.join(os.path.dirname(os.path.dirname(os.path.abspath(__file__))), "known_findings.json")
d = json.load(open(P))
kind = sys.argv[1]
if kind == "fixed":
    prop, commit, sig, what = sys.argv[2:6]
    e = dict(status="fixed", property=prop, commit=commit, signature=sig, what=what,
             line=f"fixed: property={prop} {commit} {what}")
else:
    prop, sig, what = sys.argv[2:5]
    e = dict(status="open", property=prop, signature=sig, what=what,
             line=f"KNOWN-FINDING: property={prop} {what}")
d["findings"] = [f for f in d["findings"] if not (f["property"] == e["property"] and f["signature"] == e["signature"])]
d["findings"].append(e)
json.dump(d, open(P, "w"), indent=1)
print(e["line"])
