#!/bin/bash
# tools/tryseed.sh <seed-id> <tier> <checks...> : run checks against a scratch worktree of /repo HEAD with
# seeded/<id>/patch.diff applied (selected through VERIF_REPO, so /repo itself stays untouched and other runs
# are not disturbed); the worktree is removed afterwards. Equivalent to: git -C /repo apply ...; checks; checkout.
sid=$1; tier=$2; shift 2
wt=$(/verif/tools/mkwt.sh try-$sid-$$) || exit 2
git -C $wt apply /verif/seeded/$sid/patch.diff || { echo "patch does not apply"; /verif/tools/rmwt.sh try-$sid-$$; exit 2; }
for c in "$@"; do
  out=$(VERIF_REPO=$wt /venv/bin/python /verif/check.py $c --tier $tier 2>&1 | grep -v WARNING)
  n=$(echo "$out" | grep -c '^VIOLATION')
  echo "== $sid vs $c ($tier): $n VIOLATION lines; $(echo "$out" | grep -c HARNESS-ERROR) harness errors"
  echo "$out" | grep -E '^  C[0-9]' | head -4 | cut -c1-260
done
/verif/tools/rmwt.sh try-$sid-$$
