#!/bin/bash
# tools/tryseed.sh <seed-id> <tier> <checks...> : apply seeded/<id>/patch.diff to /repo, run the checks, revert
sid=$1; tier=$2; shift 2
git -C /repo apply /verif/seeded/$sid/patch.diff || { echo "patch does not apply"; exit 2; }
for c in "$@"; do
  out=$(/venv/bin/python /verif/check.py $c --tier $tier 2>&1 | grep -v WARNING)
  n=$(echo "$out" | grep -c '^VIOLATION')
  echo "== $sid vs $c ($tier): $n VIOLATION lines; $(echo "$out" | grep -c HARNESS-ERROR) harness errors"
  echo "$out" | grep -E '^  C[0-9]' | head -4 | cut -c1-260
done
git -C /repo checkout -- .
