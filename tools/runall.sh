#!/bin/bash
# tools/runall.sh <tier> <seed> [checks...] : run checks one after the other, one summary line each
tier=${1:-quick}; seed=${2:-0}; shift 2
checks=${@:-C01 C02 C03 C04 C05 C06 C07 C08 C09 C10 C11 C12 C13 C14 C15 C16 C17 C18}
for c in $checks; do
  s=$(date +%s.%N)
  out=$(VERIF_SEED=$seed /venv/bin/python /verif/check.py $c --tier $tier 2>&1 | grep -v WARNING)
  rc=$?
  e=$(date +%s.%N)
  printf "%s seed=%s tier=%s rc=%s %.0fs viol=%s known=%s harness=%s\n" $c $seed $tier $(echo "$out" | grep -q '^VIOLATION' && echo 1 || (echo "$out" | grep -q HARNESS-ERROR && echo 2 || echo 0)) $(echo "$e - $s" | bc) $(echo "$out" | grep -c '^VIOLATION') $(echo "$out" | grep -c '^KNOWN-FINDING') $(echo "$out" | grep -c 'HARNESS-ERROR')
done
