#!/venv/bin/python
"""setup_cmd: nothing is built or installed; verify the tools the checks need exist."""
import compileall, os, shutil, sys
HERE = os.path.dirname(os.path.dirname(os.path.abspath(__file__)))
ok = compileall.compile_dir(os.path.join(HERE, "vlib"), quiet=1, legacy=False) and \
     compileall.compile_dir(os.path.join(HERE, "checks"), quiet=1, legacy=False)
for tool in ("strace",):
    if shutil.which(tool) is None:
        print("missing tool:", tool); ok = False
sys.path.insert(0, os.path.join(os.environ.get("VERIF_REPO", "/repo"), "src"))
try:
    import yaw, numpy, pandas, h5py, astropy, pyarrow  # noqa
except Exception as e:  # pragma: no cover
    print("import failure:", e); ok = False
for d in ("evidence", "replays"):
    os.makedirs(os.path.join(HERE, d), exist_ok=True)
print("selfcheck", "ok" if ok else "FAILED")
sys.exit(0 if ok else 1)
