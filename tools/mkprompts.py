#!/usr/bin/env python3
"""tools/mkprompts.py <wave>: write /tmp/wt/prompt<wave>-Cxx.txt for a wave of adversary sub-agents from the
template /verif/seeded/PROMPT.txt, the property texts and the first lines of all earlier seeds' descriptions (so that
ideas are not repeated). The prompt contains nothing else from /verif. Creates worktrees /tmp/wt/seed<wave>-Cxx."""
import glob, json, os, subprocess, sys
wave = sys.argv[1]
tmpl = open("/verif/seeded/PROMPT.txt").read()
props = {json.loads(l)["id"]: json.loads(l) for l in open("/verif/properties.jsonl")}
os.makedirs("/tmp/wt", exist_ok=True)
for pid, p in props.items():
    text = f"{pid}: {p['title']}\n\nStatement: {p['statement']}\n\nQuantified over: {p['quantifier']['text']}\n\n"
    mech = "; ".join(m["where"] for m in p["anchors"].get("mechanism", []))
    text += f"Code anchors (where the mechanisms live): {mech}\n"
    wt, out = f"/tmp/wt/seed{wave}-{pid}", f"/tmp/wt/out{wave}-{pid}"
    prompt = tmpl.replace("@WT@", wt).replace("@OUT@", out).replace("@PROP@", text)
    prior = []
    for d in sorted(glob.glob(f"/verif/seeded/{pid}-*")):
        m = json.load(open(d + "/meta.json"))
        desc = " ".join(m.get("needs_to_manifest", [])[:3])[:330]
        if desc:
            prior.append("  - " + desc)
    prompt += ("\nOther people already tried the following changes for this property - do NOT repeat them or close variants. "
               "Look for changes in OTHER mechanisms, code paths and option combinations (helper functions, default arguments, "
               "rarely used options and entry points, interactions between two features, the multiprocessing and MPI branches, "
               "error/cleanup paths, numerical edge cases, objects that are reused across calls):\n" + "\n".join(prior) + "\n")
    prompt += ("\nNote: the library source in your worktree already contains a number of recent bug fixes (see `git log`); base your "
               "changes on the code as it is now. Prefer changes that give silently wrong results over ones that raise.\n")
    open(f"/tmp/wt/prompt{wave}-{pid}.txt", "w").write(prompt)
    os.makedirs(out, exist_ok=True)
    subprocess.run(["/verif/tools/mkwt.sh", f"seed{wave}-{pid}"], check=True, stdout=subprocess.DEVNULL)
print("prompts written for wave", wave)
