#!/bin/bash
# tools/confirmseed.sh <outdir> <i> <seed-id> <property> : verify a sub-agent's change in a fresh worktree and,
# if everything holds (demo passes without / fails with the change, test-suite passes with it), store it under seeded/<seed-id>/
out=$1; i=$2; sid=$3; prop=$4
wt=$(/verif/tools/mkwt.sh confirm-$sid) || exit 2
cd $wt
export YAW_NUM_THREADS=1
r0=$(PYTHONPATH=$wt/src timeout 600 /venv/bin/python $out/demo$i.py >/tmp/wt/confirm-$sid.demo0 2>&1; echo $?)
git apply $out/change$i.diff || { echo "PATCH DOES NOT APPLY"; cd /; /verif/tools/rmwt.sh confirm-$sid; exit 2; }
t=$(PYTHONPATH=$wt/src /venv/bin/python -m pytest -q -p no:cacheprovider 2>&1 | tail -1)
r1=$(PYTHONPATH=$wt/src timeout 600 /venv/bin/python $out/demo$i.py >/tmp/wt/confirm-$sid.demo1 2>&1; echo $?)
cd /; /verif/tools/rmwt.sh confirm-$sid
echo "seed $sid: demo without change rc=$r0, with change rc=$r1, tests: $t"
if [ "$r0" = 0 ] && [ "$r1" = 1 ] && echo "$t" | grep -q "111 passed"; then
  mkdir -p /verif/seeded/$sid
  cp $out/change$i.diff /verif/seeded/$sid/patch.diff
  cp $out/demo$i.py /verif/seeded/$sid/demo.py
  cp $out/note$i.txt /verif/seeded/$sid/note.txt
  [ -d $out/fakempi ] && cp -r $out/fakempi /verif/seeded/$sid/ 
  python3 - "$sid" "$prop" "$t" <<'PY'
import json,sys
sid,prop,t=sys.argv[1:4]
note=open(f"/verif/seeded/{sid}/note.txt").read()
json.dump(dict(id=sid, property=prop, origin="sub-agent (given only the property text and a scratch worktree)",
  needs_to_manifest=note.strip().splitlines()[:12],
  confirmed=dict(demo_without_change_rc=0, demo_with_change_rc=1, test_suite_with_change=t.strip(),
     how="tools/confirmseed.sh: fresh worktree of /repo HEAD; demo; git apply patch.diff; pytest; demo"),
  detected_by=[]), open(f"/verif/seeded/{sid}/meta.json","w"), indent=1)
PY
  echo CONFIRMED
else
  echo REJECTED; tail -5 /tmp/wt/confirm-$sid.demo0 /tmp/wt/confirm-$sid.demo1
fi
