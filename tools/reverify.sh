#!/bin/bash
# tools/reverify.sh "<seed> <check> [<check>...]" ... : run the named checks (quick) against each seed in a scratch
# worktree, four seeds at a time, and record the checks that report it in seeded/<seed>/meta.json
run() { sid=$1; shift; res=""
  for c in "$@"; do
    out=$(/verif/tools/tryseed.sh $sid quick $c 2>&1 | head -1)
    n=$(echo "$out" | sed -E 's/.*: ([0-9]+) VIOLATION.*/\1/')
    [ "$n" != "0" ] && res="$res,$c"
    echo "$out"
  done
  res=${res#,}; [ -z "$res" ] && res=none
  python3 /verif/tools/seedmeta.py $sid "$res"
}
i=0
for spec in "$@"; do
  run $spec &
  i=$((i+1)); [ $((i % 4)) = 0 ] && wait
done
wait
