#!/bin/bash
# tools/wave.sh <outprefix> <suffix1> <suffix2> [props...] : confirm the two changes of every property's out dir and
# try them against the property's own check and its neighbours
pre=$1; s1=$2; s2=$3; shift 3
props=${@:-C01 C02 C03 C04 C05 C06 C07 C08 C09 C10 C11 C12 C13 C14 C15 C16 C17 C18}
declare -A REL=( [C01]="C01 C12 C13" [C02]="C02 C18 C09" [C03]="C03 C04 C17" [C04]="C04 C03 C01" [C05]="C05" [C06]="C06 C05" [C07]="C07 C05" [C08]="C08 C09" [C09]="C09 C02 C08" [C10]="C10 C01 C07" [C11]="C11" [C12]="C12 C05 C01" [C13]="C13 C01 C14" [C14]="C14 C13" [C15]="C15 C11" [C16]="C16 C18 C02" [C17]="C17 C03" [C18]="C18 C02" )
for p in $props; do
  for i in 1 2; do
    suf=$s1; [ $i = 2 ] && suf=$s2
    sid=$p-$suf
    [ -f /tmp/wt/$pre-$p/change$i.diff ] || { echo "## $sid: no change$i.diff"; continue; }
    r=$(/verif/tools/confirmseed.sh /tmp/wt/$pre-$p $i $sid $p 2>&1 | head -2 | tr '\n' ' ')
    echo "## $r"
    echo "$r" | grep -q CONFIRMED || continue
    /verif/tools/tryseed.sh $sid quick ${REL[$p]} 2>&1 | cut -c1-220
  done
done
