#!/venv/bin/python
"""Entry point: check.py <Cxx> [--tier quick|thorough] [--replay FILE].

Re-executes itself with a fixed hash seed and single-threaded BLAS, puts the
repository's current working tree first on sys.path, then hands over to
vlib.runner.  Exit 0: property held on everything explored; 1: VIOLATION
line(s) printed; 2: harness error (the check is broken, nothing is claimed).
"""
import os
import sys

HERE = os.path.dirname(os.path.abspath(__file__))
WANT = {
    "PYTHONHASHSEED": "0",
    "OMP_NUM_THREADS": "1",
    "OPENBLAS_NUM_THREADS": "1",
    "MKL_NUM_THREADS": "1",
    "PYTHONDONTWRITEBYTECODE": "1",
    "PYTHONWARNINGS": "ignore",
}
if any(os.environ.get(k) != v for k, v in WANT.items()):
    env = dict(os.environ)
    env.update(WANT)
    env.pop("YAW_NUM_THREADS", None)
    os.execve(sys.executable, [sys.executable, os.path.abspath(__file__), *sys.argv[1:]], env)

sys.path.insert(0, HERE)
sys.path.insert(0, os.path.join(os.environ.get("VERIF_REPO", "/repo"), "src"))

from vlib.runner import main  # noqa: E402

if __name__ == "__main__":
    sys.exit(main())
