"""Virtual multiprocessing: a cooperative scheduler (E2) and stand-ins for
multiprocessing.Pool / Manager / Process (E3) whose nondeterminism is owned by an explorer.

Order mode  - Pool.imap_unordered: tasks run in submission order in the calling thread, the
              explorer picks the completion order (feasible: task t can complete at position j
              only if t < j + W).
Thread mode - Pool.map, Manager().Queue(), Process: logical threads holding a baton; visible
              operations are queue put/get, task/process start, join.  Partial-order reduction:
              an enabled get, a start and a satisfied join fire at once (singleton persistent
              sets, see DESIGN.md E3b); branching happens between concurrently enabled puts.

Every object crossing a (virtual) process boundary is pickled.  "No enabled thread and not all
finished" is a deadlock verdict.  An execution is identified by its list of choices.
"""

from __future__ import annotations

import hashlib
import multiprocessing
import os
import pickle
import sys
import threading

_REAL = dict(Pool=multiprocessing.Pool, Manager=multiprocessing.Manager, Process=multiprocessing.Process)


class Abort(BaseException):
    """Raised inside abandoned logical threads; never attributed to the library."""


class HarnessError(RuntimeError):
    pass


class Deadlock(Exception):
    def __init__(self, state):
        super().__init__(f"deadlock: {state}")
        self.state = state


# --------------------------------------------------------------- scheduler ---

S = None  # the scheduler of the execution in progress


class Sched:
    def __init__(self, prefix=(), reduce=True, horizon=20000):
        self.threads = {}
        self.ctl = threading.Semaphore(0)
        self.next_tid = 0
        self.prefix = list(prefix)
        self.trace = []  # (kind, n_options, chosen, label)
        self.reduce = reduce
        self.horizon = horizon
        self.nsteps = 0
        self.pool_seq = 0
        self.pool_log = []  # per order-mode pool: dict(tasks, workers, order, consumer)
        self.state_hook = None  # callable(key) -> bool (True: state seen before, stop branching)
        self.frozen_from = None
        self.focus = None  # restrict branching to one order-mode pool (None: all)
        self.memo = None
        self.queues = {}
        self.exitcodes = []

    # -- choices
    def choose(self, kind, n, label=None):
        if n <= 1:
            return 0
        i = len(self.trace)
        if i < len(self.prefix):
            c = self.prefix[i]
            if not (0 <= c < n):
                raise HarnessError(f"replay divergence at choice {i}: {c} not in range({n}) [{kind}]")
        else:
            c = 0
        self.trace.append((kind, n, c, label))
        return c

    # -- logical threads
    def spawn(self, fn, name):
        tid = self.next_tid
        self.next_tid += 1
        t = dict(sem=threading.Semaphore(0), pending=dict(kind="start"), done=False, name=name, exc=None)
        self.threads[tid] = t

        def body():
            th = threading.current_thread()
            th.vtid = tid
            th.vsched = self
            t["sem"].acquire()
            try:
                if t["pending"] and t["pending"].get("abort"):
                    raise Abort()
                t["pending"] = None
                fn()
            except Abort:
                pass
            except BaseException as e:  # noqa: BLE001 - recorded, judged by the caller
                t["exc"] = e
            t["done"] = True
            t["pending"] = None
            self.ctl.release()

        th = threading.Thread(target=body, daemon=True)
        t["th"] = th
        th.start()
        return tid

    def me(self):
        th = threading.current_thread()
        if getattr(th, "vsched", None) is not self:
            raise Abort()
        return th.vtid

    def park(self, op):
        tid = self.me()
        t = self.threads[tid]
        t["pending"] = op
        self.ctl.release()
        t["sem"].acquire()
        if op.get("abort"):
            raise Abort()
        t["pending"] = None

    def _enabled(self):
        out = []
        for tid, t in self.threads.items():
            op = t["pending"]
            if t["done"] or op is None:
                continue
            k = op["kind"]
            if k in ("start", "step", "terminate"):
                out.append(tid)
            elif k == "put" and (op["q"].maxsize <= 0 or len(op["q"].items) < op["q"].maxsize):
                out.append(tid)  # a bounded queue blocks the producer while it is full
            elif k == "get" and op["q"].items:
                out.append(tid)
            elif k == "join" and all(self.threads[x]["done"] for x in op["targets"]):
                out.append(tid)
        return out

    def _resume(self, tid):
        self.nsteps += 1
        if self.nsteps > self.horizon:
            raise HarnessError("step horizon exceeded")
        op = self.threads[tid]["pending"]
        if op and op.get("kind") == "terminate":
            # kill the target (it is parked): unwind it under the controller, then let the caller go on
            tgt = self.threads[op["target"]]
            if not tgt["done"] and tgt["pending"] is not None:
                tgt["pending"]["abort"] = True
                tgt["killed"] = True
                tgt["sem"].release()
                self.ctl.acquire()
        self.threads[tid]["sem"].release()
        self.ctl.acquire()

    def unwind(self):
        """Abort every parked thread, one at a time, under the controller."""
        while True:
            live = [t for t in self.threads.values() if not t["done"]]
            if not live:
                break
            t = live[-1]
            if t["pending"] is None:
                break
            t["pending"]["abort"] = True
            t["sem"].release()
            self.ctl.acquire()
        for t in self.threads.values():
            t["th"].join(10)

    def run(self, mainfn):
        """Run mainfn as the main logical thread; returns ('ok', None) or ('deadlock', state)."""
        global S
        S = self
        self.spawn(mainfn, "main")
        try:
            while True:
                if all(t["done"] for t in self.threads.values()):
                    return "ok", None
                en = self._enabled()
                if not en:
                    state = {t["name"]: (t["pending"] or {}).get("kind") for t in self.threads.values()
                             if not t["done"]}
                    return "deadlock", state
                indep = [x for x in en if self.threads[x]["pending"]["kind"] in
                         ("get", "start", "step", "join", "terminate")]
                if self.reduce and indep:
                    tid = indep[0]
                else:
                    labels = [f"{self.threads[x]['name']}:{self.threads[x]['pending']['kind']}" for x in en]
                    tid = en[self.choose("sched", len(en), labels)]
                self._resume(tid)
        finally:
            self.unwind()
            S = None


def _sched():
    if S is None:
        raise HarnessError("virtual multiprocessing used outside of an exploration")
    return S


# ------------------------------------------------------------ mp stand-ins ---


class VQueue:
    _next = [0]

    def __init__(self, maxsize=0):
        self.items = []
        self.maxsize = int(maxsize or 0)
        VQueue._next[0] += 1
        self.qid = VQueue._next[0]
        _sched().queues[self.qid] = self

    def __reduce__(self):  # a manager queue proxy survives pickling and stays the same queue
        return (_lookup_queue, (self.qid,))

    def put(self, obj):
        data = pickle.dumps(obj)
        _sched().park(dict(kind="put", q=self))
        self.items.append(data)

    def get(self):
        _sched().park(dict(kind="get", q=self))
        return pickle.loads(self.items.pop(0))


def _lookup_queue(qid):
    return _sched().queues[qid]


class VManager:
    def __enter__(self):
        return self

    def __exit__(self, *a):
        return None

    def Queue(self, maxsize=0):
        return VQueue(maxsize)


class VProcess:
    def __init__(self, target=None, args=(), kwargs=None):
        self.target, self.args, self.kwargs = target, args, kwargs or {}
        self.exitcode = None
        self.tid = None
        self.exc = None

    def start(self):
        s = _sched()

        def body():
            try:
                self.target(*self.args, **self.kwargs)
                self.exitcode = 0
            except Exception as e:  # real: traceback on stderr, exit code 1, nothing raised in the parent
                self.exitcode = 1
                self.exc = e
            s.exitcodes.append((self.exitcode, repr(self.exc) if self.exc else None))

        self.tid = s.spawn(body, "writer-process")
        s.park(dict(kind="step"))

    def join(self):
        s = _sched()
        s.park(dict(kind="join", targets=[self.tid]))
        if self.exitcode is None and s.threads[self.tid].get("killed"):
            self.exitcode = -15

    def terminate(self):
        s = _sched()
        if self.tid is not None and not s.threads[self.tid]["done"]:
            s.park(dict(kind="terminate", target=self.tid))


class VAsyncResult:
    def __init__(self, tids, res, errs, order):
        self.tids, self.res, self.errs, self.order = tids, res, errs, order

    def wait(self, timeout=None):
        _sched().park(dict(kind="join", targets=self.tids))

    def ready(self):
        s = _sched()
        return all(s.threads[t]["done"] for t in self.tids)

    def get(self, timeout=None):
        self.wait()
        if self.errs:
            raise self.errs[self.order[0]]  # the failure that arrived first
        return [self.res[k] for k in range(len(self.tids))]


class VIMapIterator:
    """What Pool.imap_unordered returns: an iterator that also offers next(timeout). A timed wait is an environment
    choice: by default the result arrives in time; the deviation is that the timeout lands first (at most MAX_TIMEOUTS
    times per pool use, so that retry loops stay finite)."""

    MAX_TIMEOUTS = 2

    def __init__(self, gen, sched, seq):
        self._gen, self._s, self._seq, self._timeouts = gen, sched, seq, 0

    def __iter__(self):
        return self

    def __next__(self):
        return next(self._gen)

    def next(self, timeout=None):
        s = self._s
        if timeout is not None and self._timeouts < self.MAX_TIMEOUTS and (s.focus is None or s.focus == self._seq):
            if s.choose(f"pool{self._seq}-timeout", 2, ["in-time", "timeout"]) == 1:
                self._timeouts += 1
                import multiprocessing

                raise multiprocessing.TimeoutError()
        return next(self._gen)


class _Star:
    def __init__(self, func):
        self.func = func

    def __call__(self, args):
        return self.func(*args)


class VPool:
    def __init__(self, processes=None, *a, **k):
        self.n = processes or 1
        self.spawned = []

    def __enter__(self):
        return self

    def __exit__(self, *a):
        # Pool.__exit__ is terminate(): tasks that have not finished are killed
        s = _sched()
        for tid in self.spawned:
            if not s.threads[tid]["done"]:
                s.park(dict(kind="terminate", target=tid))
        return None

    # ---- thread mode
    def map(self, func, items):
        return self.map_async(func, items).get()

    def map_async(self, func, items, chunksize=None, callback=None, error_callback=None):
        """Tasks start running at once (as logical threads); get()/wait() join them."""
        s = _sched()
        res, errs, order = {}, {}, []
        fblob = pickle.dumps(func)
        tids = []
        for k, it in enumerate(list(items)):
            blob = pickle.dumps(it)

            def task(k=k, blob=blob):
                f = pickle.loads(fblob)
                try:
                    res[k] = pickle.loads(pickle.dumps(f(pickle.loads(blob))))
                except Exception as e:
                    errs[k] = e
                    order.append(k)

            tids.append(s.spawn(task, f"task{k}"))
        self.spawned.extend(tids)
        s.park(dict(kind="step"))  # the tasks are now runnable alongside the caller
        return VAsyncResult(tids, res, errs, order)

    def starmap(self, func, items):
        return self.map(_Star(func), items)

    def imap(self, func, iterable, chunksize=1):
        """Ordered variant: results come in submission order whatever the completion order, so there is nothing to
        explore; tasks and results are pickled as on the real pool."""
        fblob = pickle.dumps(func)
        for item in list(iterable):
            yield pickle.loads(pickle.dumps(pickle.loads(fblob)(pickle.loads(pickle.dumps(item)))))

    def close(self):
        pass

    def terminate(self):
        self.__exit__()

    def join(self):
        pass

    # ---- order mode
    def imap_unordered(self, func, iterable, chunksize=1):
        s = _sched()
        return VIMapIterator(self._imap_unordered(func, iterable), s, s.pool_seq)

    def _imap_unordered(self, func, iterable):
        s = _sched()
        seq = s.pool_seq
        s.pool_seq += 1
        tasks = list(iterable)
        T, W = len(tasks), self.n
        fblob = pickle.dumps(func)
        results = {}
        consumer = _consumer_frame()
        log = dict(tasks=T, workers=W, order=[], consumer=consumer[0] if consumer else None)
        s.pool_log.append(log)

        def run_task(t):
            blob = pickle.dumps(tasks[t])
            key = None
            if s.memo is not None:
                key = hashlib.sha1(fblob + blob).digest()
                if key in s.memo:
                    return s.memo[key]
            f = pickle.loads(fblob)
            try:
                out = ("ok", pickle.dumps(f(pickle.loads(blob))))
            except Exception as e:
                out = ("exc", e)
            if key is not None and _memoisable(f):
                s.memo[key] = out
            return out

        started = 0
        pending = []
        for j in range(T):
            while started < min(T, j + W):
                results[started] = run_task(started)
                pending.append(started)
                started += 1
            branching = s.focus is None or s.focus == seq
            if branching and s.state_hook is not None and len(pending) > 1:
                fp = _fingerprint(consumer[1]) if consumer else None
                key = (seq, tuple(sorted(set(range(started)) - set(pending))), fp)
                if s.state_hook(key, len(s.trace)):
                    branching = False  # state seen before: its futures are explored elsewhere
            if branching:
                c = s.choose(f"pool{seq}", len(pending), list(pending))
            else:
                c = 0
            t = pending.pop(c)
            log["order"].append(t)
            kind, val = results.pop(t)
            if kind == "exc":
                raise val
            yield pickle.loads(val)


_CONSUMERS = ("count_pairs", "from_catalog", "load_patches", "build_trees", "get_probe")
_NO_MEMO = ("build", "Patch")


def _memoisable(f):
    inner = getattr(f, "func", f)
    name = getattr(inner, "__name__", type(inner).__name__)
    return name not in _NO_MEMO


def _consumer_frame():
    f = sys._getframe(2)
    for _ in range(12):
        if f is None:
            return None
        if f.f_code.co_name in _CONSUMERS:
            return f.f_code.co_name, f
        f = f.f_back
    return None


def _fingerprint(frame):
    h = hashlib.sha1()
    for name in sorted(frame.f_locals):
        try:
            h.update(name.encode())
            h.update(pickle.dumps(frame.f_locals[name]))
        except Exception:
            continue
    return h.hexdigest()[:16]


def install(workers=None):
    """Replace the multiprocessing entry points the library uses (looked up at call time)."""
    multiprocessing.Pool = VPool
    multiprocessing.Manager = VManager
    multiprocessing.Process = VProcess
    from yaw.utils import parallel

    parallel._get_physical_cores = lambda: 64
    if workers is not None:
        os.environ["YAW_NUM_THREADS"] = str(workers)


def uninstall():
    for k, v in _REAL.items():
        setattr(multiprocessing, k, v)


# ---------------------------------------------------------------- explorer ---


def execute(body, prefix=(), *, reduce=True, focus=None, memo=None, state_hook=None):
    """One execution. Returns dict(verdict, value, exc, trace, pools, deadlock, exitcodes)."""
    s = Sched(prefix, reduce=reduce)
    s.focus, s.memo, s.state_hook = focus, memo, state_hook
    box = {}

    def main():
        try:
            box["value"] = body()
        except Exception as e:
            box["exc"] = e

    verdict, state = s.run(main)
    return dict(verdict=verdict, value=box.get("value"), exc=box.get("exc"), trace=s.trace,
                pools=s.pool_log, deadlock=state, exitcodes=s.exitcodes, steps=s.nsteps)


def explore(body, *, reduce=True, focus=None, memo=None, merge=False, max_exec=20000, bound=None, observe=None):
    """Depth-first enumeration of all choice sequences (optionally deviation-bounded, optionally with
    state merging for order-mode pools). observe(execution) -> hashable outcome digest.
    Returns dict(executions, outcomes {digest: dict(count, trace, example)}, capped, states, transitions)."""
    stack = [[]]
    outcomes = {}
    seen = set()
    nexec = transitions = nondefault = 0
    capped = False
    while stack:
        if nexec >= max_exec:
            capped = True
            break
        prefix = stack.pop()
        cut = {}

        def hook(key, pos, prefix=prefix):
            if pos < len(prefix):
                return False  # replaying: never cut inside the prefix
            if key in seen:
                cut.setdefault("at", pos)
                return True
            seen.add(key)
            return False

        ex = execute(body, prefix, reduce=reduce, focus=focus, memo=memo, state_hook=hook if merge else None)
        nexec += 1
        tr = ex["trace"]
        transitions += len(tr)
        nondefault += any(c != 0 for _, _, c, _ in tr)
        dig = observe(ex) if observe else repr((ex["verdict"], ex["value"], repr(ex["exc"])))
        o = outcomes.setdefault(dig, dict(count=0, trace=[c for _, _, c, _ in tr], example=ex))
        o["count"] += 1
        limit = cut.get("at", len(tr))
        for i in range(len(prefix), min(len(tr), limit)):
            kind, n, c, _ = tr[i]
            dev = sum(1 for _, _, cc, _ in tr[:i] if cc != 0)
            if bound is not None and dev + 1 > bound:
                continue
            for alt in range(1, n):
                stack.append([cc for _, _, cc, _ in tr[:i]] + [alt])
    return dict(executions=nexec, outcomes=outcomes, capped=capped, states=max(len(seen), nexec),
                transitions=transitions, nondefault=nondefault)
