"""Thin helpers around the library under test (imported lazily, after the
runner has put the repository working tree first on sys.path)."""

from __future__ import annotations

import logging
import os

import numpy as np


def sequential(nthreads: int = 1, cores: int = 64) -> None:
    """Make YAW_NUM_THREADS alone decide the worker count (no lscpu call)."""
    os.environ["YAW_NUM_THREADS"] = str(nthreads)
    from yaw.utils import parallel

    parallel._get_physical_cores = lambda: cores
    logging.getLogger("yaw").setLevel(logging.CRITICAL)


def frame(ra, dec, z=None, w=None, pid=None, extra=None):
    import pandas as pd

    d = {"ra": np.asarray(ra), "dec": np.asarray(dec)}
    if z is not None:
        d["z"] = np.asarray(z)
    if w is not None:
        d["w"] = np.asarray(w)
    if pid is not None:
        d["pid"] = np.asarray(pid)
    if extra:
        d.update(extra)
    return pd.DataFrame(d)


def make_catalog(path, ra, dec, z=None, w=None, pid=None, centers=None, **kw):
    """Catalog.from_dataframe on literal columns (degrees unless degrees=False)."""
    from yaw import AngularCoordinates, Catalog

    df = frame(ra, dec, z, w, pid)
    args = dict(ra_name="ra", dec_name="dec")
    if z is not None:
        args["redshift_name"] = "z"
    if w is not None:
        args["weight_name"] = "w"
    if centers is not None:
        c = np.asarray(centers, dtype=float)
        if kw.get("degrees", True):
            c = np.deg2rad(c)
        args["patch_centers"] = AngularCoordinates(c)
    elif pid is not None:
        args["patch_name"] = "pid"
    args.update(kw)
    return Catalog.from_dataframe(path, df, **args)


def exc_name(e: BaseException) -> str:
    return f"{type(e).__name__}: {str(e)[:160]}"
