"""Shared runner: case fan-out, evidence, replay files, known findings.

A check module (checks/cXX.py) provides

    PROPERTY   "Cxx"
    LEVEL      evidence level (exploration | fault_enumeration | model_checking)
    RULE       str, how cases are enumerated / what makes one non-trivial
    ASSUMPTIONS list[str]
    cases(tier, seed) -> list of JSON-able dicts, simplest first
    run_case(case)   -> dict with
          status      "ok" | "violation" | "skip"
          nontrivial  bool
          key         hashable/JSON-able canonical form of the case (distinctness)
          violations  list of {signature, what, detail}     (status == violation)
          skip_rule   str                                   (status == skip)
          counters    {name: int} summed into the coverage (executions, states, ...)
          outcomes    optional list of str, observed outcome digests (vacuity report)
    setup()          optional, called once per worker process before any case
    finish(ctx)      optional, extra whole-run work; may return extra coverage dict

Nothing here samples: every case returned by cases() is evaluated.
"""

from __future__ import annotations

import atexit
import fnmatch
import hashlib
import importlib
import json
import multiprocessing
import os
import shutil
import subprocess
import sys
import tempfile
import time
import traceback

VERIF = os.path.dirname(os.path.dirname(os.path.abspath(__file__)))
PY = sys.executable
NPROC = int(os.environ.get("VERIF_NPROC", "16"))


def repo_src() -> str:
    return os.path.join(os.environ.get("VERIF_REPO", "/repo"), "src")


# ---------------------------------------------------------------- scratch ---

_SCRATCH = None


def scratch_root() -> str:
    """Per-process scratch directory (tmpfs if available), removed at exit."""
    global _SCRATCH
    if _SCRATCH is None or _SCRATCH[0] != os.getpid():
        base = os.environ.get("YAWVERIF_SESSION")
        if not base or not os.path.isdir(base):
            base = "/dev/shm" if os.path.isdir("/dev/shm") else tempfile.gettempdir()
        path = tempfile.mkdtemp(prefix="yawverif_", dir=base)
        _SCRATCH = (os.getpid(), path)
        atexit.register(shutil.rmtree, path, ignore_errors=True)
    return _SCRATCH[1]


_counter = [0]


def fresh_dir(tag: str = "d") -> str:
    _counter[0] += 1
    path = os.path.join(scratch_root(), f"{tag}{_counter[0]}")
    os.makedirs(path)
    return path


def cleanup_scratch() -> None:
    global _SCRATCH
    if _SCRATCH is not None and _SCRATCH[0] == os.getpid():
        shutil.rmtree(_SCRATCH[1], ignore_errors=True)
        _SCRATCH = None


# --------------------------------------------------------------- fan-out ---

_MOD = None


def _worker_init(modname: str) -> None:
    global _MOD
    _MOD = importlib.import_module(modname)
    if hasattr(_MOD, "setup"):
        _MOD.setup()


def _run_one(case):
    try:
        res = _MOD.run_case(case)
        res.setdefault("status", "ok")
        return res
    except BaseException:  # harness error: never attributed to the library
        return {"status": "error", "trace": traceback.format_exc(), "case": case}
    finally:
        # keep tmpfs small: each case cleans what it created
        root = _SCRATCH[1] if _SCRATCH and _SCRATCH[0] == os.getpid() else None
        if root:
            for name in os.listdir(root):
                if not name.startswith("keep"):
                    shutil.rmtree(os.path.join(root, name), ignore_errors=True)


def _run_chunk(chunk):
    return [_run_one(c) for c in chunk]


def fan_out(modname: str, cases: list, nproc: int = NPROC, chunk: int | None = None):
    """Evaluate every case; yields (case, result) in case order."""
    if not cases:
        return
    nproc = max(1, min(nproc, len(cases)))
    if chunk is None:
        chunk = max(1, min(64, len(cases) // (nproc * 8) or 1))
    chunks = [cases[i : i + chunk] for i in range(0, len(cases), chunk)]
    if nproc == 1:
        _worker_init(modname)
        for ch in chunks:
            for c, r in zip(ch, _run_chunk(ch)):
                yield c, r
        return
    ctx = multiprocessing.get_context("fork")
    with ctx.Pool(nproc, initializer=_worker_init, initargs=(modname,)) as pool:
        for ch, res in zip(chunks, pool.imap(_run_chunk, chunks)):
            for c, r in zip(ch, res):
                yield c, r


# -------------------------------------------------------- known findings ---


def load_known():
    path = os.path.join(VERIF, "known_findings.json")
    if not os.path.exists(path):
        return []
    with open(path) as f:
        return json.load(f)["findings"]


def match_known(known, prop, signature):
    for k in known:
        if k.get("status") != "open" or k["property"] != prop:
            continue
        if fnmatch.fnmatchcase(signature, k["signature"]):
            return k
    return None


# ----------------------------------------------------------------- misc ---


def jdump(obj) -> str:
    return json.dumps(obj, sort_keys=True, default=_jdefault)


def _jdefault(o):
    import numpy as np

    if isinstance(o, np.ndarray):
        return o.tolist()
    if isinstance(o, (np.floating,)):
        return float(o)
    if isinstance(o, (np.integer,)):
        return int(o)
    if isinstance(o, (np.bool_,)):
        return bool(o)
    if isinstance(o, (set, frozenset)):
        return sorted(o)
    if isinstance(o, bytes):
        return o.hex()
    return repr(o)


def digest(obj) -> str:
    return hashlib.sha1(jdump(obj).encode()).hexdigest()[:12]


# ----------------------------------------------------------------- main ---


def main(argv=None) -> int:
    import argparse

    ap = argparse.ArgumentParser()
    ap.add_argument("prop")
    ap.add_argument("--tier", default=None, choices=["quick", "thorough"])
    ap.add_argument("--replay", default=None)
    ap.add_argument("--nproc", type=int, default=NPROC)
    ap.add_argument("--no-confirm", action="store_true")
    args = ap.parse_args(argv)

    prop = args.prop.upper()
    tier = args.tier or os.environ.get("VERIF_TIER") or "quick"
    if tier not in ("quick", "thorough"):
        tier = "quick"
    seed = int(os.environ.get("VERIF_SEED", "0") or 0)
    modname = f"checks.{prop.lower()}"
    mod = importlib.import_module(modname)

    # one session directory holds the scratch roots of this process and of all its workers (workers ended by the pool
    # do not run their exit handlers): it is removed as a whole when this process exits
    session = tempfile.mkdtemp(prefix="yawverif_s", dir="/dev/shm" if os.path.isdir("/dev/shm") else tempfile.gettempdir())
    os.environ["YAWVERIF_SESSION"] = session
    atexit.register(shutil.rmtree, session, ignore_errors=True)

    if args.replay:
        return replay(mod, prop, args.replay)

    t0 = time.time()
    known = load_known()
    cases = mod.cases(tier, seed)
    n_eval = 0
    nontrivial_keys = set()
    all_keys = set()
    skipped = {}
    counters = {}
    outcomes = set()
    samples = []
    errors = []
    found = {}  # signature -> (case, violation)
    n_viol_cases = 0
    sample_stride = max(1, len(cases) // 4)
    for idx, (case, res) in enumerate(fan_out(modname, cases, nproc=args.nproc,
                                              chunk=getattr(mod, "FANOUT_CHUNK", None))):
        n_eval += 1
        st = res["status"]
        if st == "error":
            errors.append(res)
            continue
        key = digest(res.get("key", case))
        for k, v in (res.get("counters") or {}).items():
            counters[k] = counters.get(k, 0) + int(v)
        for o in res.get("outcomes") or ():
            if len(outcomes) < 100000:
                outcomes.add(o)
        if st == "skip":
            r = res.get("skip_rule", "unspecified")
            skipped[r] = skipped.get(r, 0) + 1
            continue
        all_keys.add(key)
        if res.get("nontrivial"):
            nontrivial_keys.add(key)
        if idx % sample_stride == 0 and len(samples) < 5:
            samples.append(res.get("sample", case))
        if st == "violation":
            n_viol_cases += 1
            for v in res["violations"]:
                found.setdefault(v["signature"], (case, v))

    extra_cov = {}
    if hasattr(mod, "finish"):
        extra = mod.finish(
            dict(tier=tier, seed=seed, found=found, counters=counters, errors=errors)
        )
        if extra:
            extra_cov.update(extra)

    # ---- triage violations: confirm by replay, match against known findings
    os.makedirs(os.path.join(VERIF, "replays"), exist_ok=True)
    new_violations = []
    known_hits = []
    unconfirmed = []
    for sig, (case, v) in sorted(found.items()):
        rp = os.path.join(VERIF, "replays", f"{prop}-{digest([sig])}.json")
        with open(rp, "w") as f:
            json.dump(
                dict(property=prop, signature=sig, what=v["what"],
                     detail=v.get("detail"), case=v.get("replay_case", case), seed=seed),
                f, indent=1, sort_keys=True, default=_jdefault,
            )
        confirmed = True
        if not args.no_confirm:
            env = dict(os.environ)
            p = subprocess.run(
                [PY, os.path.join(VERIF, "check.py"), prop, "--replay", rp],
                capture_output=True, text=True, env=env,
            )
            confirmed = p.returncode == 1
            if p.returncode not in (0, 1):
                errors.append({"trace": p.stdout + p.stderr, "case": case})
        if not confirmed:
            unconfirmed.append((sig, rp))
            continue
        k = match_known(known, prop, sig)
        if k is not None:
            known_hits.append((k, sig, rp))
        else:
            new_violations.append((sig, v, rp))

    wall = time.time() - t0
    coverage = dict(
        evaluations=n_eval,
        distinct_cases=len(all_keys),
        distinct_nontrivial=len(nontrivial_keys),
        rule=mod.RULE,
        samples=samples[:5] if samples else [cases[0]] if cases else [],
        exhaustive=(n_eval == len(cases) and not errors),
        skipped_by_rule=skipped,
        violating_cases=n_viol_cases,
        distinct_violation_signatures=sorted(found),
        known_findings_seen=sorted({k["signature"] for k, _, _ in known_hits}),
        distinct_outcomes=len(outcomes),
    )
    coverage.update(counters)
    coverage.update(extra_cov)
    if mod.LEVEL == "model_checking":
        coverage.setdefault("states", counters.get("states", 0))
        coverage.setdefault("transitions", counters.get("transitions", 0))
        coverage.setdefault(
            "traces_validated_against_impl", counters.get("executions", 0)
        )
    evidence = dict(
        property_id=prop,
        tier=tier,
        seed=seed,
        level=mod.LEVEL,
        coverage=coverage,
        assumptions=list(getattr(mod, "ASSUMPTIONS", [])),
        wall_s=round(wall, 2),
        violations=len(new_violations),
    )
    # evidence describes runs against /repo itself; trial runs against a scratch tree (VERIF_REPO) keep theirs apart
    evdir = os.path.join(VERIF, "evidence")
    if os.path.realpath(os.environ.get("VERIF_REPO", "/repo")) != "/repo":
        evdir = os.path.join(tempfile.gettempdir(), "yawverif_trial_evidence")
    os.makedirs(evdir, exist_ok=True)
    with open(os.path.join(evdir, f"{prop}.json"), "w") as f:
        json.dump(evidence, f, indent=1, sort_keys=True, default=_jdefault)

    brief = {k: v for k, v in coverage.items() if k not in ("rule", "samples")}
    print(f"[{prop}] tier={tier} seed={seed} wall={wall:.1f}s {jdump(brief)}")
    for k, sig, rp in known_hits:
        print(f"KNOWN-FINDING: property={prop} {k['what']} [signature={sig}]")
    for sig, rp in unconfirmed:
        print(f"HARNESS-ERROR: violation {sig} did not reproduce on replay ({rp})")
    for e in errors[:5]:
        print("HARNESS-ERROR:", jdump(e.get("case"))[:300])
        print(e.get("trace", "")[-3000:])
    for sig, v, rp in new_violations:
        print(f"  {sig}: {v['what']}")
        print(f"VIOLATION property={prop} replay={rp}")
    cleanup_scratch()
    if new_violations:
        return 1
    if errors or unconfirmed:
        return 2
    return 0


def replay(mod, prop, path) -> int:
    with open(path) as f:
        rec = json.load(f)
    if hasattr(mod, "setup"):
        mod.setup()
    res = mod.run_case(rec["case"])
    cleanup_scratch()
    if res.get("status") == "violation":
        sigs = [v["signature"] for v in res["violations"]]
        want = rec.get("signature")
        for v in res["violations"]:
            print(f"  {v['signature']}: {v['what']}")
            if v.get("detail") is not None:
                print("   ", jdump(v["detail"])[:2000])
        if want is None or want in sigs:
            print(f"VIOLATION property={prop} replay={path}")
            return 1
        print(f"replay shows other violation(s) {sigs}, not {want}")
        return 1
    print(f"[{prop}] replay {path}: property holds on this case ({res.get('status')})")
    return 0
