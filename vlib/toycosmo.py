"""A picklable user-defined cosmology for the checks (module level, so that it crosses process boundaries)."""
import numpy as np
from yaw.cosmology import CustomCosmology


class Toy(CustomCosmology):
    """Two instances differ in their parameters only (same class, no name)."""

    def __init__(self, scale, curve):
        self.scale, self.curve = scale, curve

    def comoving_distance(self, z):
        z = np.asarray(z, dtype=float)
        return self.scale * z / (1.0 + self.curve * z)

    def angular_diameter_distance(self, z):
        z = np.asarray(z, dtype=float)
        # deliberately not D_C/(1+z): the configured cosmology alone defines the physical scale
        return self.comoving_distance(z) / (1.0 + z) / (1.0 + 0.1 * z)
