"""Reference models - deliberately naive numpy/Python, independent of yaw."""

from __future__ import annotations

import numpy as np

LD = np.longdouble


# ------------------------------------------------------------- binning ---


def ref_bin(z, edges, closed):
    """Index of the bin containing z under the closed-side rule, or -1."""
    for b in range(len(edges) - 1):
        lo, hi = edges[b], edges[b + 1]
        if closed == "right":
            if lo < z <= hi:
                return b
        else:
            if lo <= z < hi:
                return b
    return -1


# ------------------------------------------------------------ geometry ---


def sep(ra1, dec1, ra2, dec2):
    """Angular separation (radian) by the Vincenty formula in long double."""
    ra1, dec1, ra2, dec2 = (np.asarray(x, dtype=LD) for x in (ra1, dec1, ra2, dec2))
    dl = ra2 - ra1
    num = np.sqrt(
        (np.cos(dec2) * np.sin(dl)) ** 2
        + (np.cos(dec1) * np.sin(dec2) - np.sin(dec1) * np.cos(dec2) * np.cos(dl)) ** 2
    )
    den = np.sin(dec1) * np.sin(dec2) + np.cos(dec1) * np.cos(dec2) * np.cos(dl)
    return np.arctan2(num, den)


def sep_matrix(a, b):
    """a: (n,2), b: (m,2) in radian -> (n,m) separations (long double)."""
    a = np.asarray(a, dtype=LD).reshape(-1, 2)
    b = np.asarray(b, dtype=LD).reshape(-1, 2)
    return sep(a[:, None, 0], a[:, None, 1], b[None, :, 0], b[None, :, 1])


def to_xyz(ra, dec):
    ra = np.asarray(ra, dtype=LD)
    dec = np.asarray(dec, dtype=LD)
    return np.stack([np.cos(ra) * np.cos(dec), np.sin(ra) * np.cos(dec), np.sin(dec)], axis=-1)


def from_xyz(xyz):
    xyz = np.asarray(xyz, dtype=LD)
    x, y, z = xyz[..., 0], xyz[..., 1], xyz[..., 2]
    ra = np.arctan2(y, x) % (2 * LD(np.pi))
    dec = np.arctan2(z, np.sqrt(x * x + y * y))
    return ra, dec


def rotation_matrix(a, b, c):
    """Z(a) Y(b) Z(c) Euler rotation in long double."""
    def rz(t):
        t = LD(t)
        return np.array([[np.cos(t), -np.sin(t), 0], [np.sin(t), np.cos(t), 0], [0, 0, 1]], dtype=LD)

    def ry(t):
        t = LD(t)
        return np.array([[np.cos(t), 0, np.sin(t)], [0, 1, 0], [-np.sin(t), 0, np.cos(t)]], dtype=LD)

    return rz(a) @ ry(b) @ rz(c)


def rotate(ra, dec, R):
    """Rigidly rotate sky positions (radian in, radian float64 out)."""
    xyz = to_xyz(ra, dec) @ np.asarray(R, dtype=LD).T
    r, d = from_xyz(xyz)
    return np.asarray(r, dtype=np.float64), np.asarray(d, dtype=np.float64)


def ref_assign(points, centres):
    """Nearest centre for each point; also the margin to the runner-up."""
    s = sep_matrix(points, centres)
    order = np.argsort(s, axis=1)
    idx = order[:, 0]
    if s.shape[1] > 1:
        best = np.take_along_axis(s, order[:, :1], axis=1)[:, 0]
        second = np.take_along_axis(s, order[:, 1:2], axis=1)[:, 0]
        margin = np.asarray(second - best, dtype=float)
    else:
        margin = np.full(len(idx), np.inf)
    return idx, margin


# ---------------------------------------------------------- resampling ---


def ref_jackknife_sum(array3):
    """array3: (bins, N, N) cell values. Sample k = sum of all cells (i, j)
    with i != k and j != k, written with explicit loops."""
    B, N, _ = array3.shape
    data = np.zeros(B)
    samples = np.zeros((N, B))
    for b in range(B):
        for i in range(N):
            for j in range(N):
                data[b] += array3[b, i, j]
                for k in range(N):
                    if i != k and j != k:
                        samples[k, b] += array3[b, i, j]
    return data, samples


def ref_cov(samples):
    """Delete-one jackknife covariance (N-1)/N sum_k (x_k - mean)(x_k - mean)^T."""
    samples = np.asarray(samples, dtype=float)
    N, B = samples.shape
    mean = np.zeros(B)
    for k in range(N):
        mean += samples[k] / N
    cov = np.zeros((B, B))
    for k in range(N):
        d = samples[k] - mean
        for a in range(B):
            for c in range(B):
                cov[a, c] += d[a] * d[c]
    return cov * (N - 1) / N


def weight_product(sw1, sw2, auto):
    """(bins, N, N) array of weight products as the C04 statement defines the
    normalisation: sum over cells = product of totals (cross) or half the squared
    total (auto: upper triangle with halved diagonal)."""
    B, N = sw1.shape
    out = np.zeros((B, N, N))
    for b in range(B):
        for i in range(N):
            for j in range(N):
                if auto:
                    if j > i:
                        out[b, i, j] = sw1[b, i] * sw2[b, j]
                    elif j == i:
                        out[b, i, j] = 0.5 * sw1[b, i] * sw2[b, j]
                else:
                    out[b, i, j] = sw1[b, i] * sw2[b, j]
    return out


# ---------------------------------------------------------- estimators ---


def ref_norm_term(counts, sw1, sw2, auto):
    """Normalised pair-count term and its delete-one samples, from the C04 text:
    total pair count divided by the product of the two samples' total weights
    (half the squared total for an autocorrelation); sample k removes patch k
    from counts (every cell touching k) and from the totals."""
    B, N, _ = counts.shape
    data = np.zeros(B)
    samples = np.zeros((N, B))
    with np.errstate(all="ignore"):
        for b in range(B):
            tot = 0.0
            for i in range(N):
                for j in range(N):
                    tot += counts[b, i, j]
            t1 = sum(sw1[b, i] for i in range(N))
            t2 = sum(sw2[b, j] for j in range(N))
            norm = 0.5 * t1 * t2 if auto else t1 * t2
            data[b] = np.float64(tot) / np.float64(norm)
            for k in range(N):
                c = 0.0
                for i in range(N):
                    for j in range(N):
                        if i != k and j != k:
                            c += counts[b, i, j]
                u1 = sum(sw1[b, i] for i in range(N) if i != k)
                u2 = sum(sw2[b, j] for j in range(N) if j != k)
                nk = 0.5 * u1 * u2 if auto else u1 * u2
                samples[k, b] = np.float64(c) / np.float64(nk)
    return data, samples


def ref_estimator(terms):
    """terms: dict kind -> array (dd required). Returns list of acceptable results
    (several where the statement allows a choice) or None where it defines nothing."""
    dd, dr, rd, rr = (terms.get(k) for k in ("dd", "dr", "rd", "rr"))
    with np.errstate(all="ignore"):
        if rr is not None:
            if dr is None:
                return None  # Landy-Szalay without DR: not defined by the statement
            rd_eff = dr if rd is None else rd
            return [(dd - dr - rd_eff + rr) / rr]
        out = []
        if dr is not None:
            out.append(dd / dr - 1.0)
        if rd is not None:
            out.append(dd / rd - 1.0)
        return out


def close(a, b, rtol=1e-12, atol=0.0):
    a = np.asarray(a, dtype=float)
    b = np.asarray(b, dtype=float)
    if a.shape != b.shape:
        return False
    return bool(np.allclose(a, b, rtol=rtol, atol=atol, equal_nan=True))
