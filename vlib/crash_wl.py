#!/venv/bin/python
"""Crash workloads for C08.  usage: crash_wl.py <workload> <phase> <base>

phase 'setup' creates the prior disk state under <base>, 'work' runs the step that is going to be
interrupted.  Observation is done by checks/c08.py in another process.  Everything is deterministic
and touches only absolute paths below <base>.
"""
import os
import sys

HERE = os.path.dirname(os.path.dirname(os.path.abspath(__file__)))
sys.path.insert(0, HERE)
sys.path.insert(0, os.path.join(os.environ.get("VERIF_REPO", "/repo"), "src"))
os.environ["YAW_NUM_THREADS"] = "2" if (len(sys.argv) > 1 and sys.argv[1].lower().endswith("p")) else "1"

B1 = [0.1, 0.2, 0.4]
B2 = [0.1, 0.3, 0.4]


def frames():
    import pandas as pd

    new = pd.DataFrame(dict(ra=[10.0, 10.4, 10.8, 15.0, 15.3, 15.6, 10.2], dec=[0.0, 0.2, 0.1, 0.0, 0.3, 0.1, 0.4],
                            z=[0.15, 0.25, 0.35, 0.15, 0.25, 0.35, 0.3], w=[2.0, 3.0, 5.0, 7.0, 11.0, 13.0, 17.0],
                            pid=[0, 0, 0, 1, 1, 1, 0]))
    old = pd.DataFrame(dict(ra=[10.1, 10.5, 15.1, 15.5, 15.9], dec=[0.1, 0.3, 0.2, 0.0, 0.4],
                            z=[0.12, 0.22, 0.32, 0.18, 0.28], w=[19.0, 23.0, 29.0, 31.0, 37.0], pid=[0, 0, 1, 1, 1]))
    unk = pd.DataFrame(dict(ra=[10.3, 10.9, 15.2, 15.8], dec=[0.1, 0.0, 0.2, 0.1], pid=[0, 0, 1, 1]))
    return new, old, unk


def big_frame():
    """Patches far larger than an I/O buffer, written in many chunks smaller than one (W1b)."""
    import numpy as np
    import pandas as pd

    n = 1200
    i = np.arange(n)
    return pd.DataFrame(dict(ra=10.0 + 5.0 * (i % 2) + 0.8 * ((i * 7919) % 1000) / 1000.0, dec=0.4 * ((i * 104729) % 997) / 997.0,
                             z=0.11 + 0.28 * ((i * 31) % 101) / 101.0, w=1.0 + (i % 13)))


def make(path, df, **kw):
    from yaw import Catalog

    import numpy as np
    from yaw import AngularCoordinates

    centres = AngularCoordinates(np.deg2rad([[10.4, 0.15], [15.4, 0.15]]))
    args = dict(ra_name="ra", dec_name="dec", patch_centers=centres)
    if "z" in df:
        args.update(redshift_name="z", weight_name="w")
    args.update(kw)
    return Catalog.from_dataframe(path, df, **args)


def config(edges, closed="right"):
    import yaw

    return yaw.Configuration.create(rmin=0.1, rmax=1.5, unit="deg", edges=edges, closed=closed)


def products(which):
    """Deterministic CorrFunc / CorrData / Configuration objects: 'old' and 'new'."""
    import numpy as np
    import yaw
    from vlib import containers as C

    salt = 0 if which == "old" else 5
    cf = C.make_corrfunc(2, 2, False, ["dr", "rr"], salt=salt)
    cd = yaw.CorrData(C.make_binning(2), np.array([1.0, 2.0]) + salt, np.array([[1.5, 2.5], [0.5, 1.5]]) + salt)
    conf = yaw.Configuration.create(rmin=100.0 + salt, rmax=1000.0, zmin=0.1, zmax=1.0 + salt, num_bins=3,
                                    cosmology="WMAP9" if which == "new" else "Planck15")
    return cf, cd, conf


def returned(cat):
    """A creation that returns reports what it returned (the surviving parent of a killed writer process)."""
    import json

    rows = {int(pid): sorted(tuple(float(x) for x in r) for r in p.load_data().tolist()) for pid, p in cat.items()}
    print("RETURNED " + json.dumps(rows, sort_keys=True), flush=True)


def arm():
    """Called right before the step that is going to be interrupted. With W_EXC_AT_LINE=k a KeyboardInterrupt is raised
    before the k-th executed line of library code from here on (an interrupt between two file-system operations, with
    stack unwinding); with W_EXC_COUNT the lines are only counted."""
    at = int(os.environ.get("W_EXC_AT_LINE", "0"))
    if not (at or os.environ.get("W_EXC_COUNT")):
        return
    seen = [0]

    def tracer(frame, event, arg):
        if "/yaw/" not in frame.f_code.co_filename:
            return None
        if event == "line":
            seen[0] += 1
            if seen[0] == at:
                sys.settrace(None)
                raise KeyboardInterrupt(f"injected before line {at}")
        return tracer

    if not at:
        import atexit

        atexit.register(lambda: print(f"LINES {seen[0]}", flush=True))
    sys.settrace(tracer)


def main():
    wl, phase, base = sys.argv[1:4]
    import logging

    logging.getLogger("yaw").setLevel(logging.CRITICAL)
    from yaw import Catalog

    new, old, unk = frames()
    R = os.path.join(base, "R")
    if phase == "setup":
        os.makedirs(base, exist_ok=True)
        if wl in ("W1", "W1p", "W1b", "W1P"):
            pass
        elif wl in ("W2", "W2p"):
            make(R, old)
        elif wl in ("W3", "W4", "W5", "W5f", "W6"):
            cat = make(R, new, chunksize=3)
            make(os.path.join(base, "U"), unk)
            if wl == "W3":
                for p in cat.values():
                    os.remove(p.cache_path / "meta.yml")
            if wl in ("W5", "W5f", "W6"):
                cat.build_trees(B1)
        elif wl == "W7n":  # serialising to a path that does not exist yet
            pass
        elif wl in ("W7", "W8", "W8d", "W9"):
            cf, cd, conf = products("old")
            if wl == "W7":
                cf.to_file(os.path.join(base, "cf.hdf"))
            elif wl == "W8":
                cd.to_files(os.path.join(base, "cd"))
            elif wl == "W8d":  # a path prefix with a dot in its last component
                cd.to_files(os.path.join(base, "nz_0.1"))
            else:
                conf.to_file(os.path.join(base, "conf.yml"))
    elif phase == "work":
        pass
        if wl in ("W1", "W1p", "W1P"):  # W1p/W1P: two workers, the writer is a process of its own
            kill_at = int(os.environ.get("W1P_KILL_AT_CHUNK", "0"))
            if wl == "W1P" and kill_at:
                # the main process dies (SIGKILL) at the instant it asks its source for the k-th chunk; pool workers,
                # manager and writer process are left behind
                import signal

                from yaw.catalog import readers

                orig, seen = readers.DataFrameReader._get_next_chunk, [0]

                def dying(self):
                    seen[0] += 1
                    if seen[0] == kill_at:
                        os.kill(os.getpid(), getattr(signal, "SIG" + os.environ.get("W1P_SIGNAL", "KILL")))
                    return orig(self)

                readers.DataFrameReader._get_next_chunk = dying
            arm()
            returned(make(R, new, chunksize=1 if wl == "W1P" else 3))
        elif wl in ("W2", "W2p"):
            arm()
            returned(make(R, new, chunksize=3, overwrite=True))
        elif wl == "W1b":
            make(R, big_frame(), chunksize=100)
        elif wl == "W3":
            Catalog(R)
        elif wl == "W4":
            Catalog(R).build_trees(B1)
        elif wl == "W5":
            cat = Catalog(R)
            arm()
            cat.build_trees(B2)
        elif wl == "W5f":  # forced rebuild over trees of another binning
            Catalog(R).build_trees(B2, force=True)
        elif wl == "W6":
            Catalog(R).build_trees(None)
        elif wl in ("W7", "W7n", "W8", "W8d", "W9"):
            cf, cd, conf = products("new")
            arm()
            if wl in ("W7", "W7n"):
                cf.to_file(os.path.join(base, "cf.hdf"))
            elif wl == "W8":
                cd.to_files(os.path.join(base, "cd"))
            elif wl == "W8d":
                cd.to_files(os.path.join(base, "nz_0.1"))
            else:
                conf.to_file(os.path.join(base, "conf.yml"))
    print("phase done")


if __name__ == "__main__":
    main()
