"""E5 - crash-point enumeration with real kills (strace as fault injector).

record(workload, base)  -> ordered list of file-system operations of the workload (strace -P on every path
                           below base, so only workload system calls are counted)
inject(workload, base, op) -> run the workload again and SIGKILL it on entry to that operation
"""

from __future__ import annotations

import os
import re
import shutil
import subprocess
import sys

SYSCALLS = "mkdir,mkdirat,openat,write,pwrite64,writev,pwritev,unlink,unlinkat,rmdir,rename,renameat,renameat2,ftruncate,truncate"
MUTATING_OPEN = re.compile(r"O_WRONLY|O_RDWR|O_CREAT|O_TRUNC|O_APPEND")
LINE = re.compile(r"^(\d+)\s+(\w+)\((.*)$")
RESUMED = re.compile(r"^(\d+)\s+<\.\.\. (\w+) resumed>(.*)$")
WL = os.path.join(os.path.dirname(os.path.abspath(__file__)), "crash_wl.py")
PY = sys.executable


class HarnessError(RuntimeError):
    pass


def _strace(args, out, extra=()):
    cmd = ["strace", "-f", "-y", "-o", out, "-e", f"trace={SYSCALLS}", *extra, PY, WL, *args]
    return subprocess.run(cmd, capture_output=True, text=True)


def _parse(path):
    """-> list of (pid, name, rest); an '<unfinished ...>' line is merged with its '<... resumed>' line."""
    ops = []
    open_calls = {}
    for line in open(path, errors="replace"):
        m = LINE.match(line)
        if m:
            pid, name, rest = m.group(1), m.group(2), m.group(3).rstrip()
            if rest.endswith("<unfinished ...>"):
                open_calls[(pid, name)] = len(ops)
                rest = rest[: -len("<unfinished ...>")].rstrip()
            ops.append([pid, name, rest])
            continue
        m = RESUMED.match(line)
        if m and (m.group(1), m.group(2)) in open_calls:
            i = open_calls.pop((m.group(1), m.group(2)))
            ops[i][2] += m.group(3).rstrip()
    return [tuple(o) for o in ops]


def setup(workload, base):
    shutil.rmtree(base, ignore_errors=True)
    os.makedirs(base)
    p = subprocess.run([PY, WL, workload, "setup", base], capture_output=True, text=True)
    if p.returncode != 0:
        raise HarnessError(f"setup of {workload} failed: {p.stderr[-2000:]}")


def record(workload, base, scratch):
    """Returns (paths, ops) with ops = list of dict(name, ordinal, text, mutating)."""
    snap = os.path.join(scratch, "snap")
    setup(workload, base)
    shutil.copytree(base, snap, symlinks=True)
    rec1 = os.path.join(scratch, "rec1.txt")
    p = _strace([workload, "work", base], rec1)
    if p.returncode != 0:
        raise HarnessError(f"recording run of {workload} failed rc={p.returncode}: {p.stderr[-1500:]}")
    paths = sorted(set(re.findall(re.escape(base) + r'[^">,)\s]*', open(rec1, errors="replace").read())))
    paths = [q for q in paths if q != base] + [base]
    shutil.rmtree(base)
    shutil.copytree(snap, base, symlinks=True)
    rec2 = os.path.join(scratch, "rec2.txt")
    extra = []
    for q in paths:
        extra += ["-P", q]
    p = _strace([workload, "work", base], rec2, extra)
    if p.returncode != 0:
        raise HarnessError(f"filtered recording of {workload} failed: {p.stderr[-1500:]}")
    ops = []
    counts = {}
    pids = []
    for pid, name, rest in _parse(rec2):
        if pid not in pids:
            pids.append(pid)
        counts[(pid, name)] = counts.get((pid, name), 0) + 1
        failed = re.search(r"= -1 E", rest) is not None
        mutating = (name != "openat" or MUTATING_OPEN.search(rest)) and not failed
        ops.append(dict(name=name, ordinal=counts[(pid, name)], text=f"{name}({rest}"[:200], mutating=bool(mutating),
                        proc=pids.index(pid)))
    shutil.rmtree(base)
    shutil.copytree(snap, base, symlinks=True)
    rel = [os.path.relpath(q, base) for q in paths]
    return rel, ops


def inject(workload, base, rel_paths, op, scratch):
    """Run the workload on the (already restored) base directory and kill it on entry to op."""
    out = os.path.join(scratch, "inj.txt")
    extra = ["-e", f"inject={op['name']}:signal=KILL:when={op['ordinal']}"]
    for q in rel_paths:
        extra += ["-P", os.path.normpath(os.path.join(base, q))]
    p = _strace([workload, "work", base], out, extra)
    lines = open(out, errors="replace").read().splitlines()
    # the tracee that was killed, and the call it had entered ("name(args) = ?" or "name(args <unfinished ...>")
    victims = [m.group(1) for l in lines if (m := re.match(r"^(\d+)\s+\+\+\+ killed by SIGKILL", l))]
    last = ""
    for l in reversed(lines):
        m = LINE.match(l)
        if m and m.group(1) in victims and m.group(2) == op["name"] and ("= ?" in l or "<unfinished" in l):
            last = l
            break
    # sequential workloads: the traced interpreter itself dies (status 137); parallel ones: a child is killed and the
    # parent ends with an error of its own
    killed = bool(victims) and (p.returncode in (137, -9) or workload.endswith("p"))
    return dict(rc=p.returncode, killed=killed, matched=killed and bool(last),
                tail=last.replace(" <unfinished ...>", " = ?").strip()[:200], victims=len(victims),
                stdout=p.stdout[-4000:])
