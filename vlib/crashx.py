"""E5 - crash-point enumeration with real kills (strace as fault injector).

record(workload, base)  -> ordered list of file-system operations of the workload (strace -P on every path
                           below base, so only workload system calls are counted)
inject(workload, base, op) -> run the workload again and SIGKILL it on entry to that operation
"""

from __future__ import annotations

import os
import re
import shutil
import subprocess
import sys

SYSCALLS = "mkdir,mkdirat,openat,write,pwrite64,writev,pwritev,unlink,unlinkat,rmdir,rename,renameat,renameat2,ftruncate,truncate"
MUTATING_OPEN = re.compile(r"O_WRONLY|O_RDWR|O_CREAT|O_TRUNC|O_APPEND")
LINE = re.compile(r"^(\d+)\s+(\w+)\((.*)$")
RESUMED = re.compile(r"^(\d+)\s+<\.\.\. (\w+) resumed>(.*)$")
WL = os.path.join(os.path.dirname(os.path.abspath(__file__)), "crash_wl.py")
PY = sys.executable


class HarnessError(RuntimeError):
    pass


def _strace(args, out, extra=()):
    cmd = ["strace", "-f", "-y", "-o", out, "-e", f"trace={SYSCALLS}", *extra, PY, WL, *args]
    return subprocess.run(cmd, capture_output=True, text=True)


def _parse(path):
    """-> list of (pid, name, rest); an '<unfinished ...>' line is merged with its '<... resumed>' line."""
    ops = []
    open_calls = {}
    for line in open(path, errors="replace"):
        m = LINE.match(line)
        if m:
            pid, name, rest = m.group(1), m.group(2), m.group(3).rstrip()
            if rest.endswith("<unfinished ...>"):
                open_calls[(pid, name)] = len(ops)
                rest = rest[: -len("<unfinished ...>")].rstrip()
            ops.append([pid, name, rest])
            continue
        m = RESUMED.match(line)
        if m and (m.group(1), m.group(2)) in open_calls:
            i = open_calls.pop((m.group(1), m.group(2)))
            ops[i][2] += m.group(3).rstrip()
    return [tuple(o) for o in ops]


def setup(workload, base):
    shutil.rmtree(base, ignore_errors=True)
    os.makedirs(base)
    p = subprocess.run([PY, WL, workload, "setup", base], capture_output=True, text=True)
    if p.returncode != 0:
        raise HarnessError(f"setup of {workload} failed: {p.stderr[-2000:]}")


def record(workload, base, scratch):
    """Returns (paths, ops) with ops = list of dict(name, ordinal, text, mutating)."""
    snap = os.path.join(scratch, "snap")
    setup(workload, base)
    shutil.copytree(base, snap, symlinks=True)
    rec1 = os.path.join(scratch, "rec1.txt")
    p = _strace([workload, "work", base], rec1)
    if p.returncode != 0:
        raise HarnessError(f"recording run of {workload} failed rc={p.returncode}: {p.stderr[-1500:]}")
    paths = sorted(set(re.findall(re.escape(base) + r'[^">,)\s]*', open(rec1, errors="replace").read())))
    paths = [q for q in paths if q != base] + [base]
    shutil.rmtree(base)
    shutil.copytree(snap, base, symlinks=True)
    rec2 = os.path.join(scratch, "rec2.txt")
    extra = []
    for q in paths:
        extra += ["-P", q]
    p = _strace([workload, "work", base], rec2, extra)
    if p.returncode != 0:
        raise HarnessError(f"filtered recording of {workload} failed: {p.stderr[-1500:]}")
    ops = []
    counts = {}
    pids = []
    for pid, name, rest in _parse(rec2):
        if pid not in pids:
            pids.append(pid)
        counts[(pid, name)] = counts.get((pid, name), 0) + 1
        failed = re.search(r"= -1 E", rest) is not None
        mutating = (name != "openat" or MUTATING_OPEN.search(rest)) and not failed
        ops.append(dict(name=name, ordinal=counts[(pid, name)], text=f"{name}({rest}"[:200], mutating=bool(mutating),
                        proc=pids.index(pid)))
    shutil.rmtree(base)
    shutil.copytree(snap, base, symlinks=True)
    rel = [os.path.relpath(q, base) for q in paths]
    return rel, ops


def inject(workload, base, rel_paths, op, scratch, sig="KILL"):
    """Run the workload on the (already restored) base directory and kill it on entry to op (SIGKILL), or deliver
    SIGINT there: the interpreter then dies by KeyboardInterrupt, running its exception handlers on the way out."""
    out = os.path.join(scratch, "inj.txt")
    extra = ["-e", f"inject={op['name']}:signal={sig}:when={op['ordinal']}"]
    for q in rel_paths:
        extra += ["-P", os.path.normpath(os.path.join(base, q))]
    p = _strace([workload, "work", base], out, extra)
    lines = open(out, errors="replace").read().splitlines()
    # the tracee that was killed, and the call it had entered ("name(args) = ?" or "name(args <unfinished ...>")
    victims = [m.group(1) for l in lines if (m := re.match(r"^(\d+)\s+\+\+\+ killed by SIG" + sig, l))]
    last = ""
    if sig == "KILL":
        for l in reversed(lines):
            m = LINE.match(l)
            if m and m.group(1) in victims and m.group(2) == op["name"] and ("= ?" in l or "<unfinished" in l):
                last = l
                break
    else:  # the call itself completes, the signal is handled right after it: the call before the "--- SIGINT" line
        for i, l in enumerate(lines):
            if re.match(r"^(\d+)\s+--- SIG" + sig, l):
                for prev in reversed(lines[:i]):
                    m = LINE.match(prev)
                    if m and m.group(2) == op["name"]:
                        last = prev
                        break
                break
    # sequential workloads: the traced interpreter itself dies (status 137); parallel ones: a child is killed and the
    # parent ends with an error of its own
    killed = bool(victims) and (p.returncode in (137, -9, 130, -2) or workload.endswith("p"))
    return dict(rc=p.returncode, killed=killed, matched=killed and bool(last),
                tail=last.replace(" <unfinished ...>", " = ?").strip()[:200], victims=len(victims),
                stdout=p.stdout[-4000:])


# ------------------------------------------------------------------ parent of a parallel workload ---

PARENT_CALLS = "write,writev,sendto,sendmsg"


def _strace_parent(args, out, extra=(), env=None):
    """Trace only the main process (no -f): its children (pool workers, manager, writer process) run free.
    The whole process group is killed after the main process has gone and a grace period has passed."""
    import signal
    import time

    cmd = ["strace", "-y", "-o", out, "-e", f"trace={PARENT_CALLS}", *extra, PY, WL, *args]
    # output goes to files: orphaned children keep inherited pipes open and would block a reader forever
    with open(out + ".stdout", "w") as fo, open(out + ".stderr", "w") as fe:
        p = subprocess.Popen(cmd, stdout=fo, stderr=fe, text=True, start_new_session=True,
                             env=dict(os.environ, **(env or {})))
        try:
            p.wait(timeout=120)
        except subprocess.TimeoutExpired:
            os.killpg(p.pid, signal.SIGKILL)
            raise HarnessError("parent-traced workload did not end")
    return p, open(out + ".stdout").read(), open(out + ".stderr").read()


def _kill_group(p, grace):
    import signal
    import time

    time.sleep(grace)  # orphans that decide by themselves what to do with the cache get the time to do it
    try:
        os.killpg(p.pid, signal.SIGKILL)
    except ProcessLookupError:
        pass


def record_parent(workload, base, scratch):
    """Write-like system calls of the main process of a parallel workload (pipes to the pool, manager socket)."""
    snap = os.path.join(scratch, "snap")
    setup(workload, base)
    shutil.copytree(base, snap, symlinks=True)
    rec = os.path.join(scratch, "recp.txt")
    p, out, err = _strace_parent([workload, "work", base], rec)
    _kill_group(p, 0.0)
    if p.returncode != 0:
        raise HarnessError(f"recording run of {workload} failed rc={p.returncode}: {err[-1500:]}")
    ops, counts = [], {}
    for line in open(rec, errors="replace"):
        m = re.match(r"^(\w+)\((.*)$", line)
        if not m:
            continue
        name = m.group(1)
        counts[name] = counts.get(name, 0) + 1
        ops.append(dict(name=name, ordinal=counts[name], text=f"{name}({m.group(2).rstrip()}"[:120], mutating=True, proc=0))
    # plus: the main process dies when it asks its source for chunk k (the pool's dispatch happens in a helper thread
    # of the main process, which is not traced; 8 chunk requests: 7 chunks of one record and the end of input)
    for k in range(1, 8):
        ops.append(dict(name="chunk-request", ordinal=k, text=f"chunk-request({k})", mutating=True, proc=0))
    for k in range(1, 8):  # the same instants with SIGINT: the main process unwinds (KeyboardInterrupt) before it dies
        ops.append(dict(name="chunk-request-int", ordinal=k, text=f"chunk-request-int({k})", mutating=True, proc=0))
    shutil.rmtree(base)
    shutil.copytree(snap, base, symlinks=True)
    return [], ops


def inject_parent(workload, base, op, scratch, grace=2.5):
    out = os.path.join(scratch, "injp.txt")
    if op["name"] in ("chunk-request", "chunk-request-int"):
        sig = "INT" if op["name"].endswith("-int") else "KILL"
        p, stdout, stderr = _strace_parent([workload, "work", base], out,
                                           env=dict(W1P_KILL_AT_CHUNK=str(op["ordinal"]), W1P_SIGNAL=sig))
        _kill_group(p, grace)
        killed = p.returncode in ((-9, 137) if sig == "KILL" else (-2, 130, 1))
        return dict(rc=p.returncode, killed=killed, matched=killed, tail=f"{op['name']}({op['ordinal']}) = ?", victims=int(killed),
                    stdout=stdout[-4000:])
    extra = ["-e", f"inject={op['name']}:signal=KILL:when={op['ordinal']}"]
    p, stdout, stderr = _strace_parent([workload, "work", base], out, extra)
    _kill_group(p, grace)
    text = open(out, errors="replace").read()
    killed = "+++ killed by SIGKILL +++" in text
    last = ""
    for l in reversed(text.splitlines()):
        if l.startswith(op["name"] + "("):
            last = l
            break
    return dict(rc=p.returncode, killed=killed, matched=killed and bool(last), tail=last[:200], victims=int(killed), stdout=stdout[-4000:])


# ------------------------------------------------------------------ interrupts between two lines of library code ---


def record_lines(workload, base, scratch):
    """Number of executed lines of library code in the workload; crash point k = KeyboardInterrupt before line k."""
    snap = os.path.join(scratch, "snap")
    setup(workload, base)
    shutil.copytree(base, snap, symlinks=True)
    p = subprocess.run([PY, WL, workload, "work", base], capture_output=True, text=True, env=dict(os.environ, W_EXC_COUNT="1"))
    m = re.search(r"^LINES (\d+)$", p.stdout, re.M)
    if p.returncode != 0 or not m:
        raise HarnessError(f"line count of {workload} failed: {p.stderr[-1500:]}")
    shutil.rmtree(base)
    shutil.copytree(snap, base, symlinks=True)
    n = int(m.group(1))
    return [], [dict(name="line", ordinal=k, text=f"line({k} of {n})", mutating=True, proc=0) for k in range(1, n + 1)]


def inject_line(workload, base, op, scratch):
    p = subprocess.run([PY, WL, workload, "work", base], capture_output=True, text=True,
                       env=dict(os.environ, W_EXC_AT_LINE=str(op["ordinal"])))
    killed = p.returncode in (-2, 130, 1) and "KeyboardInterrupt" in p.stderr
    return dict(rc=p.returncode, killed=killed, matched=killed, tail=op["text"] + " = ?", victims=int(killed),
                stdout=p.stdout[-4000:], stderr=p.stderr[-600:])
