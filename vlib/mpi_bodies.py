#!/venv/bin/python
"""Programs run by every rank of the simulated MPI world (C06) - and, unchanged, by a plain
single-process interpreter to obtain the reference observation.

usage (baseline, MPI-less process):  mpi_bodies.py baseline <dir>   -> JSON {program: observation}
"""
import hashlib
import json
import os
import shutil
import sys

import numpy as np

EDGES = [0.1, 0.2, 0.3, 0.4]
PROGRAMS = ("create-centres", "create-ids", "create-hdf", "create-parquet", "create-random", "create-num", "load", "trees",
            "hist", "auto", "cross", "io",
            # the same with progress=True: the progress indicator wraps the result generators on the root rank
            "create-ids+p", "trees+p", "hist+p", "cross+p",
            # faulty requests that a single process refuses with an error: under MPI the error must surface as well
            "refuse-badprobe", "refuse-empty-centre", "refuse-exists")
NEEDS_FIXTURE = ("load", "trees", "hist", "auto", "cross", "trees+p", "hist+p", "cross+p")


def h(*parts):
    m = hashlib.sha1()
    for p in parts:
        if isinstance(p, np.ndarray):
            m.update(str(p.dtype).encode() + str(p.shape).encode() + np.ascontiguousarray(p).tobytes())
        else:
            m.update(repr(p).encode())
    return m.hexdigest()[:16]


def frames():
    import pandas as pd

    n = 8
    i = np.arange(n)
    R = pd.DataFrame(dict(ra=10.0 + 5.0 * (i % 2) + 0.37 * (i // 2), dec=0.21 * (i % 3), z=0.15 + 0.1 * (i % 3) + 0.01 * (i // 3),
                          w=1.0 + (3 * i) % 7, pid=i % 2))
    j = np.arange(6)
    U = pd.DataFrame(dict(ra=10.2 + 5.0 * (j % 2) + 0.41 * (j // 2), dec=0.17 * (j % 3), pid=j % 2))
    k = np.arange(7)
    RR = pd.DataFrame(dict(ra=9.8 + 5.0 * (k % 2) + 0.53 * (k // 2), dec=0.11 * (k % 4), z=0.12 + 0.09 * (k % 3) + 0.02 * (k // 3),
                           pid=k % 2))
    return R, U, RR


def centres():
    from yaw import AngularCoordinates

    return AngularCoordinates(np.deg2rad([[10.6, 0.2], [15.6, 0.2]]))


def config(max_workers=None):
    import yaw

    return yaw.Configuration.create(rmin=[0.2, 0.8], rmax=[1.0, 2.5], unit="deg", edges=EDGES, max_workers=max_workers)


def obs_catalog(cat):
    """Exact part (records, keys, counts) as digest; order-of-summation dependent floats separately."""
    parts = [list(cat.keys()), cat.get_num_records()]
    for pid, p in cat.items():
        d = p.load_data()
        parts += [pid, list(d.dtype.names), np.sort(d, order=list(d.dtype.names))]
    floats = [list(cat.get_sum_weights()), cat.get_centers().data.tolist(), cat.get_radii().data.tolist()]
    return dict(exact=h(*parts), floats=floats)


def same_obs(a, b, rtol=1e-12):
    """Root observation vs single-process observation (floats that depend on record order: 1e-12)."""
    if isinstance(a, dict) and isinstance(b, dict):
        if a.get("exact") != b.get("exact"):
            return False
        fa, fb = a.get("floats"), b.get("floats")
        if len(fa) != len(fb):
            return False
        for x, y in zip(fa, fb):
            x, y = np.asarray(x, dtype=float), np.asarray(y, dtype=float)
            if x.shape != y.shape or not np.allclose(x, y, rtol=rtol, atol=1e-15):
                return False
        return True
    return a == b


def obs_cf(cfs):
    parts = []
    for cf in cfs:
        for kind in ("dd", "dr", "rd", "rr"):
            nc = getattr(cf, kind)
            if nc is None:
                parts.append(None)
            else:
                parts += [nc.counts.counts, nc.sum_weights.sum_weights1, nc.sum_weights.sum_weights2]
    return h(*parts)


def obs_trees(cat):
    from yaw.catalog.trees import BinnedTrees

    parts = []
    for pid, patch in cat.items():
        bt = BinnedTrees(patch)
        trees = bt.trees if bt.is_binned() else (bt.trees,)
        for t in trees:
            pts = np.array(t.data)
            parts += [pid, t.num_records, t.sum_weights, pts[np.lexsort(pts.T[::-1])] if len(pts) else pts]
    return h(*parts)


def make_fixture(d):
    """Sequential creation of the fixture caches (only in an MPI-less process)."""
    from yaw import Catalog

    R, U, RR = frames()
    kw = dict(ra_name="ra", dec_name="dec", patch_centers=centres())
    Catalog.from_dataframe(os.path.join(d, "R"), R, redshift_name="z", weight_name="w", **kw)
    Catalog.from_dataframe(os.path.join(d, "U"), U, **kw)
    Catalog.from_dataframe(os.path.join(d, "RR"), RR, redshift_name="z", **kw)
    import h5py

    with h5py.File(os.path.join(d, "input.hdf5"), "w") as f:
        for k in ("ra", "dec", "z", "w"):
            f.create_dataset(k, data=R[k].to_numpy())
    import pyarrow as pa
    from pyarrow import parquet

    parquet.write_table(pa.Table.from_pandas(R, preserve_index=False), os.path.join(d, "input.parquet"), row_group_size=2)


def program(name, d, max_workers=None):
    """Runs on every rank; returns this rank's observation (the root's is compared with the baseline)."""
    import yaw
    from yaw import Catalog
    from yaw.utils import parallel

    R, U, RR = frames()
    fix = os.path.join(d, "fixture")
    out = os.path.join(d, "out")
    mw = dict(max_workers=max_workers)
    prog = {}
    if name.endswith("+p"):
        from yaw.utils.logging import Indicator

        Indicator.__init__.__kwdefaults__["stream"] = open(os.devnull, "w")
        name, prog = name[:-2], dict(progress=True)
        mw = dict(mw, **prog)
    if name.startswith("refuse-"):
        try:
            if name == "refuse-badprobe":
                from yaw.randoms import BoxRandoms

                gen = BoxRandoms(9.0, 17.0, -0.5, 1.0, seed=5)
                Catalog.from_random(out + "/rand", gen, 7, patch_num=2, probe_size=50, chunksize=3, **mw)
            elif name == "refuse-exists":
                # the target exists already and overwriting was not requested
                if parallel.on_root():
                    os.makedirs(out + "/R/precious")
                parallel.COMM.Barrier()
                Catalog.from_dataframe(out + "/R", R, ra_name="ra", dec_name="dec", patch_centers=centres(), chunksize=3,
                                       overwrite=False, **mw)
            else:
                from yaw import AngularCoordinates

                cen = AngularCoordinates(np.deg2rad([[10.6, 0.2], [100.0, 50.0], [15.6, 0.2]]))  # the second attracts nothing
                Catalog.from_dataframe(out + "/R", R, ra_name="ra", dec_name="dec", patch_centers=cen, chunksize=3, **mw)
        except Exception as e:  # noqa: BLE001
            return f"raised:{type(e).__name__}"
        return "returned"
    if name == "create-centres":
        cat = Catalog.from_dataframe(out + "/R", R, ra_name="ra", dec_name="dec", redshift_name="z", weight_name="w",
                                     patch_centers=centres(), chunksize=3, **mw)
        first = obs_catalog(cat)
        parallel.COMM.Barrier()
        again = obs_catalog(Catalog(out + "/R"))  # what the cache says when it is opened again
        return dict(exact=h(first["exact"], again["exact"]), floats=first["floats"] + again["floats"])
    if name == "create-ids":
        cat = Catalog.from_dataframe(out + "/R", R, ra_name="ra", dec_name="dec", redshift_name="z", weight_name="w",
                                     patch_name="pid", chunksize=3, **mw)
        return obs_catalog(cat)
    if name == "create-hdf":
        cat = Catalog.from_file(out + "/R", os.path.join(fix, "input.hdf5"), ra_name="ra", dec_name="dec",
                                redshift_name="z", weight_name="w", patch_centers=centres(), chunksize=3, **mw)
        return obs_catalog(cat)
    if name == "create-parquet":
        cat = Catalog.from_file(out + "/R", os.path.join(fix, "input.parquet"), ra_name="ra", dec_name="dec",
                                redshift_name="z", weight_name="w", patch_name="pid", chunksize=3, **mw)
        return obs_catalog(cat)
    if name == "create-num":
        # generated centres (k-means on the root rank, random initialisation): the partition itself is not
        # comparable between runs; observed: all records stored once, each in the patch of its nearest centre
        cat = Catalog.from_dataframe(out + "/R", R, ra_name="ra", dec_name="dec", redshift_name="z", weight_name="w",
                                     patch_num=2, probe_size=20, chunksize=3, **mw)
        from vlib import ref

        recs, ok = [], True
        cen = cat.get_centers().data
        for pid, p in cat.items():
            d = p.load_data()
            recs.append(d)
            idx, margin = ref.ref_assign(np.column_stack([d["ra"], d["dec"]]), cen)
            ok = ok and bool(np.all((idx == list(cat.keys()).index(pid)) | (margin < 1e-9)))
        allrec = np.concatenate(recs)
        return dict(exact=h(np.sort(allrec, order=list(allrec.dtype.names)), ok, len(cat)), floats=[])
    if name == "create-random":
        from yaw import AngularCoordinates
        from yaw.randoms import BoxRandoms

        gen = BoxRandoms(9.0, 17.0, -0.5, 1.0, seed=5, weights=R["w"].to_numpy(), redshifts=R["z"].to_numpy())
        cat = Catalog.from_random(out + "/rand", gen, 7, patch_centers=AngularCoordinates(np.deg2rad([[13.0, 0.2]])),
                                  chunksize=3, **mw)
        return obs_catalog(cat)
    if name == "load":
        if parallel.on_root():
            for p in ("patch_0", "patch_1"):
                os.remove(os.path.join(fix, "R", p, "meta.yml"))
        parallel.COMM.Barrier()
        return obs_catalog(Catalog(os.path.join(fix, "R"), **mw))
    cR, cU, cRR = (Catalog(os.path.join(fix, n)) for n in ("R", "U", "RR"))
    if name == "trees":
        cR.build_trees(EDGES, **mw)
        cU.build_trees(None, **mw)
        parallel.COMM.Barrier()
        return h(obs_trees(cR), obs_trees(cU)) if parallel.on_root() else None
    conf = config(max_workers)
    if name == "hist":
        hd = yaw.HistData.from_catalog(cR, conf, **prog)
        return h(hd.data, hd.samples)
    if name == "auto":
        cfs = yaw.autocorrelate(conf, cR, cRR, count_rr=True)
        return obs_cf(cfs) if parallel.on_root() else None
    if name == "cross":
        cfs = yaw.crosscorrelate(conf, cR, cU, ref_rand=cRR, **prog)
        return obs_cf(cfs) if parallel.on_root() else None
    if name == "io":
        from vlib import containers as C

        cf = C.make_corrfunc(2, 2, False, ["dr", "rr"])
        cd = cf.sample()
        cf.to_file(out + "/cf.hdf")
        cf2 = yaw.CorrFunc.from_file(out + "/cf.hdf")
        cd.to_files(out + "/cd")
        cd2 = yaw.CorrData.from_files(out + "/cd")
        conf.to_file(out + "/conf.yml")
        conf2 = yaw.Configuration.from_file(out + "/conf.yml")
        ok = bool(cf2 == cf) and bool(conf2 == conf) and cd2.binning == cd.binning
        return h(ok, obs_cf([cf2]), cd2.data, cd2.samples, conf2.binning.edges)
    raise ValueError(name)


def main():
    here = os.path.dirname(os.path.dirname(os.path.abspath(__file__)))
    sys.path.insert(0, here)
    sys.path.insert(0, os.path.join(os.environ.get("VERIF_REPO", "/repo"), "src"))
    os.environ["YAW_NUM_THREADS"] = "1"
    import logging
    import warnings

    warnings.simplefilter("ignore")
    logging.getLogger("yaw").setLevel(logging.CRITICAL)
    d = sys.argv[2]
    fixture = os.path.join(d, "fixture")
    os.makedirs(fixture)
    make_fixture(fixture)
    out = {}
    for name in PROGRAMS:
        work = os.path.join(d, "base_" + name)
        os.makedirs(os.path.join(work, "out"))
        shutil.copytree(fixture, os.path.join(work, "fixture"))
        out[name] = program(name, work)
        shutil.rmtree(work)
    print(json.dumps(out))


if __name__ == "__main__":
    main()
