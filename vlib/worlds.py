"""Small rigid worlds on the sphere for the pipeline checks (C01, C03e, C12, C13).

Base frame (degrees): patch centres on the equator at RA = 0, D, 2D (D = 6); objects at
named offsets along that arc (and on a second row at dec = +0.4).  A world is the base
frame carried to another place by a rigid rotation applied in long double.  The
reference pair counter is an O(n^2) loop over long-double Vincenty separations.
"""

from __future__ import annotations

import hashlib

import numpy as np

from vlib import ref

D = 6.0
POS = {  # offsets from c0 along the arc, degrees
    "c0": 0.0, "c1": D, "b0": D / 2 - 0.2, "b1": D / 2 + 0.2, "w0": D - 3.1, "n0": 0.7, "n1": D + 0.7,
    "f0": -2.5, "f1": D + 2.5, "c2": 2 * D, "b2": 3 * D / 2 + 0.2, "n2": 2 * D + 0.7,
}
ROW2 = 0.4  # second row declination
ANG = {  # angular scale sets, degrees
    "ang1": [(0.3, 1.1)],
    "ang2": [(0.3, 1.1), (0.9, 2.6)],
    "ang3": [(0.3, 1.1), (0.9, 2.6), (2.0, 3.4)],
    "ang4": [(0.3, 0.8), (0.6, 1.7), (1.1, 2.6), (2.0, 3.4)],
    "ang3rev": [(2.0, 3.4), (0.3, 1.1), (0.9, 2.6)],  # not in ascending order, largest first
}
BINNINGS = {
    "B2r": ([0.1, 0.2, 0.4], "right"), "B2l": ([0.1, 0.2, 0.4], "left"),
    "B3": ([0.1, 0.2, 0.3, 0.4], "right"),
    "lowz": ([0.01, 0.03, 0.05], "right"), "highz": ([1.6, 3.0, 6.0], "right"),
    "B1": ([0.1, 0.4], "right"),
}

ROTATIONS = {
    "equator": (np.deg2rad(40.0), 0.0, 0.0),
    "straddle": (np.deg2rad(-D / 2), 0.0, 0.0),
    "npole": (0.0, -np.pi / 2, 0.0),
    "spole": (0.0, np.pi / 2, np.deg2rad(-D)),
    "midpole": (0.3, -np.pi / 2, np.deg2rad(-D / 2)),
    "generic": (0.7, 1.1, 2.3),
}


def jitter(seed: int, name: str) -> float:
    h = hashlib.sha1(f"{seed}:{name}".encode()).digest()
    return (int.from_bytes(h[:4], "big") / 2**32 * 2 - 1) * 1e-7


def place(world: str, ra_deg, dec_deg):
    """Base-frame degrees -> world-frame radian (float64)."""
    R = ref.rotation_matrix(*ROTATIONS[world])
    return ref.rotate(np.deg2rad(np.asarray(ra_deg, dtype=float)),
                      np.deg2rad(np.asarray(dec_deg, dtype=float)), R)


def centres(world: str, n: int, spacing: float = D):
    ra, dec = place(world, [i * spacing for i in range(n)], [0.0] * n)
    return np.column_stack([ra, dec])


def obj(pos, row=0, z=None, w=None, seed=0, tag=""):
    """Object in base-frame degrees with a reproducible sub-1e-7 jitter."""
    base = POS[pos] if isinstance(pos, str) else float(pos)
    return dict(ra=base + jitter(seed, f"{pos}{row}{tag}ra"),
                dec=(ROW2 if row else 0.0) + jitter(seed, f"{pos}{row}{tag}dec"), z=z, w=w,
                name=f"{pos}{'r' if row else ''}{tag}")


def realise(world, objs, ncentres, spacing: float = D):
    """-> dict(ra, dec [radian, world], z, w, patch, margin) with reference patch assignment."""
    if not objs:
        raise ValueError("empty catalog")
    ra, dec = place(world, [o["ra"] for o in objs], [o["dec"] for o in objs])
    cen = centres(world, ncentres, spacing)
    patch, margin = ref.ref_assign(np.column_stack([ra, dec]), cen)
    has_z = objs[0]["z"] is not None
    has_w = objs[0]["w"] is not None
    return dict(ra=ra, dec=dec,
                z=np.array([o["z"] for o in objs], dtype=float) if has_z else None,
                w=np.array([o["w"] for o in objs], dtype=float) if has_w else None,
                patch=np.asarray(patch), margin=margin, names=[o["name"] for o in objs])


def make_catalog(path, cat, cen, **kw):
    """Create the real catalog from a realised object list (radian input, given centres)."""
    from yaw import AngularCoordinates, Catalog
    from vlib import yawx

    df = yawx.frame(cat["ra"], cat["dec"], cat["z"], cat["w"])
    args = dict(ra_name="ra", dec_name="dec", degrees=False,
                patch_centers=AngularCoordinates(np.asarray(cen, dtype=float)))
    if cat["z"] is not None:
        args["redshift_name"] = "z"
    if cat["w"] is not None:
        args["weight_name"] = "w"
    args.update(kw)
    return Catalog.from_dataframe(path, df, **args)


# ------------------------------------------------------------- scales ---


def cosmo_of(name):
    """astropy cosmology for a case: a named one, or 'curved' (closed model, D_M != D_C)."""
    import astropy.cosmology as ac

    if name == "curved":
        return ac.LambdaCDM(H0=70.0, Om0=0.3, Ode0=0.9)
    if name == "h100":  # shorter distances than the default cosmology: larger angles for the same physical scale
        return ac.FlatLambdaCDM(H0=100.0, Om0=0.3)
    return getattr(ac, name or "Planck15")


def scale_config(scale_set: str, unit: str, binning: str, cosmo_name: str = "Planck15"):
    """Scale limits in `unit` that correspond to the angular set at the centre of the first bin."""
    edges, _ = BINNINGS[binning]
    z0 = 0.5 * (edges[0] + edges[1])
    cosmo = cosmo_of(cosmo_name)
    lims = np.deg2rad(np.array(ANG[scale_set]))
    if unit == "deg":
        vals = np.array(ANG[scale_set])
    elif unit == "arcmin":
        vals = np.array(ANG[scale_set]) * 60.0
    elif unit in ("kpc", "Mpc"):
        vals = lims * cosmo.angular_diameter_distance(z0).value * (1000.0 if unit == "kpc" else 1.0)
    else:
        vals = lims * cosmo.comoving_distance(z0).value * (1000.0 if unit == "kpc/h" else 1.0)
    # round to 6 significant digits so that the numbers in a replay file are short and exact
    vals = np.array([[float(f"{x:.6g}") for x in row] for row in vals])
    return [float(v) for v in vals[:, 0]], [float(v) for v in vals[:, 1]]


def ref_angles(rmin, rmax, unit, zmid, cosmo_name="Planck15"):
    """Angle limits in radian at zmid for every scale, computed with astropy directly."""
    cosmo = cosmo_of(cosmo_name)
    out = []
    for r in (np.asarray(rmin, dtype=float), np.asarray(rmax, dtype=float)):
        if unit == "deg":
            a = np.deg2rad(r)
        elif unit == "arcmin":
            a = np.deg2rad(r / 60.0)
        elif unit == "rad":
            a = r
        elif unit in ("kpc", "Mpc"):
            a = (r / 1000.0 if unit == "kpc" else r) / cosmo.angular_diameter_distance(zmid).value
        else:
            a = (r / 1000.0 if unit == "kpc/h" else r) / cosmo.comoving_distance(zmid).value
        out.append(np.asarray(a, dtype=float))
    return out


def fine_grid(amin, amax, rweight, res):
    """Edges of the separation bins in which pairs are weighted (radian)."""
    logs = np.log10(np.concatenate([amin, amax]))
    if rweight is None:
        return 10.0 ** np.unique(logs)
    grid = [logs.min() + (logs.max() - logs.min()) * i / res for i in range(res + 1)]
    return 10.0 ** np.unique(np.concatenate([grid, logs]))


def ref_paircounts(cat1, cat2, *, edges, closed, binned1, binned2, npatch, angles, rweight=None,
                   res=None, auto=False, tol=1e-9):
    """O(n^2) reference.

    angles: per bin (amin[s], amax[s]) in radian.  Returns dict(counts[s,b,i,j], sw1[b,i], sw2[b,j],
    near_limit: a pair separation lies within tol (relative) of a scale / fine-bin limit,
    cross_pairs: number of counted pairs between different patches).
    """
    B = len(edges) - 1
    S = len(angles[0][0])
    counts = np.zeros((S, B, npatch, npatch))
    sw1 = np.zeros((B, npatch))
    sw2 = np.zeros((B, npatch))
    n1, n2 = len(cat1["ra"]), len(cat2["ra"])
    w1 = cat1["w"] if cat1["w"] is not None else np.ones(n1)
    w2 = cat2["w"] if cat2["w"] is not None else np.ones(n2)

    def bins_of(cat, binned, n):
        if not binned:
            return [list(range(B))] * n
        return [[b] if (b := ref.ref_bin(z, edges, closed)) >= 0 else [] for z in cat["z"]]

    b1, b2 = bins_of(cat1, binned1, n1), bins_of(cat2, binned2, n2)
    for i in range(n1):
        for b in b1[i]:
            sw1[b, cat1["patch"][i]] += w1[i]
    for j in range(n2):
        for b in b2[j]:
            sw2[b, cat2["patch"][j]] += w2[j]
    seps = np.asarray(ref.sep_matrix(np.column_stack([cat1["ra"], cat1["dec"]]),
                                     np.column_stack([cat2["ra"], cat2["dec"]])))
    near = False
    cross_pairs = 0
    min_gap = np.inf
    for b in range(B):
        amin, amax = angles[b]
        grid = fine_grid(amin, amax, rweight, res)
        mids = np.sqrt(grid[:-1] * grid[1:])
        for i in range(n1):
            if b not in b1[i]:
                continue
            for j in range(n2):
                if b not in b2[j]:
                    continue
                if auto and j <= i:
                    continue  # every unordered pair once, no self pairs
                s = float(seps[i, j])
                if s > 0:
                    gap = float(np.min(np.abs(grid / s - 1.0)))
                    min_gap = min(min_gap, gap)
                    if gap < tol:
                        near = True
                pi_, pj_ = int(cat1["patch"][i]), int(cat2["patch"][j])
                if auto and pj_ < pi_:
                    pi_, pj_ = pj_, pi_
                for sc in range(S):
                    if amin[sc] < s <= amax[sc]:
                        if rweight is None:
                            f = 1.0
                        else:
                            k = int(np.searchsorted(grid, s, side="left")) - 1  # (lo, hi]
                            f = float(mids[k] ** rweight)
                        counts[sc, b, pi_, pj_] += w1[i] * w2[j] * f
                        if pi_ != pj_:
                            cross_pairs += 1
    return dict(counts=counts, sw1=sw1, sw2=sw2, near_limit=near, cross_pairs=cross_pairs,
                min_gap=min_gap)
