#!/venv/bin/python
"""Conformance of the virtual multiprocessing layer: run the same harness bodies free on the real
multiprocessing module and report observations that differ from the sequential run.

usage: realmp_conf.py c05 <seed>     -> one JSON line {"runs": n, "mismatches": [...]}
"""
import json
import os
import sys

HERE = os.path.dirname(os.path.dirname(os.path.abspath(__file__)))
sys.path.insert(0, HERE)
sys.path.insert(0, os.path.join(os.environ.get("VERIF_REPO", "/repo"), "src"))


def main():
    which, seed = sys.argv[1], int(sys.argv[2])
    from vlib import runner, yawx

    yawx.sequential()
    import warnings

    warnings.simplefilter("ignore")
    mism, runs = [], 0
    if which == "c05":
        from checks import c05

        for npatch in (2, 3):
            root = runner.fresh_dir("conf")
            cats = c05.make_caches(root, npatch, seed)
            for entry in c05.ENTRIES:
                body = c05.make_body(entry, root, cats)
                yawx.sequential(1)
                base = body()
                for W in (2, 4):
                    yawx.sequential(W)
                    for rep in range(2):
                        runs += 1
                        try:
                            got = body()
                        except Exception as e:  # noqa: BLE001
                            got = f"EXC {type(e).__name__}: {e}"
                        if got != base:
                            mism.append(dict(entry=entry, npatch=npatch, W=W, got=str(got)[:100]))
                yawx.sequential(1)
    runner.cleanup_scratch()
    print(json.dumps(dict(runs=runs, mismatches=mism)))


if __name__ == "__main__":
    main()
