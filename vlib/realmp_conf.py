#!/venv/bin/python
"""Conformance of the virtual multiprocessing layer: run the same harness bodies free on the real
multiprocessing module and report observations that differ from the sequential run.

usage: realmp_conf.py c05 <seed>     -> one JSON line {"runs": n, "mismatches": [...]}
"""
import json
import os
import sys

HERE = os.path.dirname(os.path.dirname(os.path.abspath(__file__)))
sys.path.insert(0, HERE)
sys.path.insert(0, os.path.join(os.environ.get("VERIF_REPO", "/repo"), "src"))


def main():
    which, seed = sys.argv[1], int(sys.argv[2])
    from vlib import runner, yawx

    yawx.sequential()
    import warnings

    warnings.simplefilter("ignore")
    mism, runs = [], 0
    if which == "c05":
        from checks import c05

        for npatch in (2, 3):
            root = runner.fresh_dir("conf")
            cats = c05.make_caches(root, npatch, seed)
            for entry in c05.ENTRIES:
                body = c05.make_body(entry, root, cats)
                yawx.sequential(1)
                base = body()
                for W in (2, 4):
                    yawx.sequential(W)
                    for rep in range(2):
                        runs += 1
                        try:
                            got = body()
                        except Exception as e:  # noqa: BLE001
                            got = f"EXC {type(e).__name__}: {e}"
                        if got != base:
                            mism.append(dict(entry=entry, npatch=npatch, W=W, got=str(got)[:100]))
                yawx.sequential(1)
    if which == "c05seq":
        # one process, a sequence of measurements with differing binnings and worker counts on the same caches
        # (real multiprocessing pools); prints the digest of the last measurement
        import yaw
        from checks import c05

        scenario = json.loads(sys.argv[3])
        root = runner.fresh_dir("seq")
        # two working directories holding different catalogs under the same relative names
        for sub in ("a", "b"):
            os.makedirs(os.path.join(root, sub))
            c05.make_caches(os.path.join(root, sub), 2, seed)
        # directory b: reference sample and its randoms exchanged, so that the same relative names mean other data
        os.rename(os.path.join(root, "b", "R"), os.path.join(root, "b", "tmp"))
        os.rename(os.path.join(root, "b", "RR"), os.path.join(root, "b", "R"))
        os.rename(os.path.join(root, "b", "tmp"), os.path.join(root, "b", "RR"))
        edges = {"A": [0.1, 0.2, 0.3, 0.4], "B": [0.1, 0.25, 0.3, 0.4]}
        last = None
        for item in scenario:
            name, W = item[0], item[1]
            os.chdir(os.path.join(root, item[2] if len(item) > 2 else "a"))
            cats = {n: yaw.Catalog(n) for n in ("R", "U", "RR")}  # relative cache paths
            yawx.sequential(W)
            if len(item) > 3:  # physical scales with an unnamed (user-defined) cosmology
                from checks import c15

                conf = yaw.Configuration.create(rmin=[2500.0, 7000.0], rmax=[9000.0, 28000.0], unit="kpc", edges=edges[name],
                                                cosmology=c15.cosmo_obj(item[3]))
            else:
                conf = yaw.Configuration.create(rmin=[0.3, 0.9], rmax=[1.1, 3.4], unit="deg", edges=edges[name])
            last = c05.obs_corrfuncs(yaw.crosscorrelate(conf, cats["R"], cats["U"], ref_rand=cats["RR"], unk_rand=cats["U"]))
        os.chdir("/")
        runner.cleanup_scratch()
        print(json.dumps(dict(digest=last)))
        return
    if which == "c02":
        # free-running real pipeline (Pool + Manager queue + writer process): stored multisets == sequential
        import numpy as np
        import pandas as pd
        from yaw import AngularCoordinates, Catalog
        from checks import c02

        for n, cs, mode in ((6, 2, "ids"), (7, 3, "centres"), (5, None, "ids"), (3, 1, "centres")):
            ra, dec, w, z, pid = c02.records(n)
            cols = dict(ra=ra, dec=dec, w=w, z=z)
            kw = dict(ra_name="ra", dec_name="dec", weight_name="w", redshift_name="z", chunksize=cs)
            if mode == "ids":
                cols["pid"] = pid
                kw["patch_name"] = "pid"
            else:
                kw["patch_centers"] = AngularCoordinates(np.deg2rad(c02.CENTRES[: min(3, n)]))
            rows, patch = c02.expected_records(dict(n=n, degrees=True, mode=mode), cols)
            for W in (2, 3):
                yawx.sequential(W)
                runs += 1
                d = runner.fresh_dir("conf2")
                v = []
                try:
                    cat = Catalog.from_dataframe(d + "/cat", pd.DataFrame(cols), **kw)
                    c02.compare_catalog(cat, rows, patch, "real", v)
                except Exception as e:  # noqa: BLE001
                    v.append(dict(signature=f"exception {type(e).__name__}: {e}"))
                if v:
                    mism.append(dict(n=n, chunksize=cs, mode=mode, W=W, got=v[0]["signature"]))
    if which == "c09":
        # the verdicts the model gives must be what the real pipeline does (with a watchdog against hangs)
        import signal

        import numpy as np
        import pandas as pd
        from yaw import Catalog

        def attempt(df, path, **kw):
            def alarm(*a):
                raise TimeoutError("real pipeline hangs")
            signal.signal(signal.SIGALRM, alarm)
            signal.alarm(60)
            try:
                Catalog.from_dataframe(path, df, ra_name="ra", dec_name="dec", patch_name="pid", chunksize=2, **kw)
                return "returned"
            except TimeoutError:
                return "hang"
            except Exception as e:  # noqa: BLE001
                return "raised"
            finally:
                signal.alarm(0)

        good = pd.DataFrame(dict(ra=[1.0, 2, 3, 4, 5, 6], dec=[0.0] * 6, pid=[0, 1, 0, 1, 0, 1]))
        for W in (2, 3):
            yawx.sequential(W)
            d = runner.fresh_dir("conf9")
            bad = good.copy()
            bad.loc[3, "ra"] = np.nan
            expect = [("nan-middle", attempt(bad, d + "/a"), "raised"), ("valid", attempt(good, d + "/b"), "returned"),
                      ("exists", attempt(good, d + "/b"), "raised"),
                      ("exists-overwrite", attempt(good, d + "/b", overwrite=True), "returned")]
            badid = good.copy()
            badid.loc[5, "pid"] = -1
            expect.append(("patch-id-last", attempt(badid, d + "/c"), "raised"))
            for name, got, want in expect:
                runs += 1
                if got != want:
                    mism.append(dict(case=name, W=W, got=got, want=want))
            try:
                Catalog(d + "/a")
                mism.append(dict(case="failed creation opens", W=W))
            except Exception:  # noqa: BLE001
                pass
    runner.cleanup_scratch()
    print(json.dumps(dict(runs=runs, mismatches=mism)))


if __name__ == "__main__":
    main()
