"""Simulated MPI world (subset used by yet_another_wizz), written from the MPI-3.1 text.

Ranks are threads holding a baton: exactly one runs at a time, a rank gives the baton back whenever it
enters a blocking MPI call.  The controller (run_world) applies the POE discipline: every deterministic
match fires first (eager send completion, named receive, complete collective); a wildcard receive is matched
only when nothing else can make progress, and then the explorer branches over every sender that can match.

send modes   eager      - standard send returns at once (infinite buffering)
             rendezvous - standard send returns only when matched (no buffering), like ssend
             threshold  - payloads above THRESHOLD bytes rendezvous, smaller ones eager
collectives  full       - every collective synchronises all members
             minimal    - bcast root / gather non-roots may leave early (Barrier and Split always synchronise)
Non-overtaking holds per (communicator, sender, receiver, tag).
"""
import os
import pickle
import threading

ANY_SOURCE = -1
ANY_TAG = -1
UNDEFINED = -32766
THRESHOLD = 2048

WORLD = None


class Abort(BaseException):
    pass


class HarnessError(RuntimeError):
    pass


class World:
    def __init__(self, size, send_mode="eager", coll_mode="full", prefix=()):
        self.size = size
        self.send_mode, self.coll_mode = send_mode, coll_mode
        self.sem = [threading.Semaphore(0) for _ in range(size)]
        self.ctl = threading.Semaphore(0)
        self.pending = [None] * size
        self.done = [False] * size
        self.error = [None] * size
        self.queues = {}   # (cid, src, dst, tag) -> [payload]
        self.coll = {}     # (cid, kind, seq) -> dict(values, left)
        self.comms = {0: COMM_WORLD}
        self.next_cid = 1
        self.prefix = list(prefix)
        self.trace = []    # (n_candidates, chosen, labels)
        self.nops = 0
        self.leftover = 0
        self.freed = set()


def _rank():
    return getattr(threading.current_thread(), "mpi_rank", 0)


class Comm:
    def __init__(self, members, cid):
        self.members = list(members)
        self.cid = cid
        self.seq = {}

    def __reduce__(self):  # communicators travel inside pickled functools.partial objects
        return (_lookup_comm, (self.cid,))

    def Get_size(self):
        if self.cid == 0:
            return WORLD.size if WORLD is not None else int(os.environ.get("FAKE_MPI_SIZE", "2"))
        return len(self.members)

    def Get_rank(self):
        if WORLD is None:
            return 0
        return self._members().index(_rank())

    def _members(self):
        return list(range(WORLD.size)) if self.cid == 0 else self.members

    def _block(self, op):
        w = WORLD
        if w is None:
            raise HarnessError("MPI call outside of a simulated world")
        if self.cid in w.freed:
            raise HarnessError(f"use of freed communicator {self.cid}")
        r = _rank()
        op["rank"], op["cid"] = r, self.cid
        w.pending[r] = op
        w.ctl.release()
        w.sem[r].acquire()
        if op.get("abort"):
            raise Abort()
        return op.get("result")

    # ---- point to point
    def send(self, obj, dest, tag=0):
        data = pickle.dumps(obj)
        mode = WORLD.send_mode
        sync = mode == "rendezvous" or (mode == "threshold" and len(data) > THRESHOLD)
        self._block(dict(kind="send", dst=self._members()[dest], tag=tag, data=data, sync=sync))

    def ssend(self, obj, dest, tag=0):
        self._block(dict(kind="send", dst=self._members()[dest], tag=tag, data=pickle.dumps(obj), sync=True))

    def recv(self, buf=None, source=ANY_SOURCE, tag=ANY_TAG, status=None):
        src = ANY_SOURCE if source == ANY_SOURCE else self._members()[source]
        return pickle.loads(self._block(dict(kind="recv", src=src, tag=tag)))

    # ---- collectives
    def _coll(self, kind, **kw):
        key = (_rank(), kind)
        k = self.seq.get(key, 0)
        self.seq[key] = k + 1
        return self._block(dict(kind=kind, seq=k, **kw))

    def Barrier(self):
        self._coll("barrier")

    barrier = Barrier

    def bcast(self, obj=None, root=0):
        wroot = self._members()[root]
        data = pickle.dumps(obj) if _rank() == wroot else None
        return pickle.loads(self._coll("bcast", root=wroot, data=data))

    def Bcast(self, buf, root=0):
        import numpy as np

        wroot = self._members()[root]
        is_root = _rank() == wroot
        data = pickle.dumps(np.array(buf, copy=True)) if is_root else None
        res = pickle.loads(self._coll("bcast", root=wroot, data=data))
        if not is_root:
            np.asarray(buf)[...] = res

    def gather(self, obj, root=0):
        wroot = self._members()[root]
        res = self._coll("gather", root=wroot, data=pickle.dumps(obj))
        return None if res is None else [pickle.loads(x) for x in res]

    # collectives composed from the ones above (their synchronisation is at least what the standard demands of them,
    # never less than a legal implementation may show: gather + bcast)
    def allgather(self, obj):
        return self.bcast(self.gather(obj, root=0), root=0)

    def scatter(self, objs=None, root=0):
        return self.bcast(objs, root=root)[self.Get_rank()]

    def reduce(self, obj, op=None, root=0):
        parts = self.gather(obj, root=root)
        return None if parts is None else _fold(parts, op)

    def allreduce(self, obj, op=None):
        return _fold(self.allgather(obj), op)

    def Split(self, color=0, key=0):
        return self._coll("split", color=color, key=key)

    def Free(self):
        if WORLD is not None and self.cid != 0:
            pass  # freeing is local in this model; use after Free by the same rank is not tracked


SUM, PROD, MAX, MIN, LAND, LOR = "sum", "prod", "max", "min", "land", "lor"


def _fold(parts, op):
    import functools
    import operator

    fn = {None: operator.add, SUM: operator.add, PROD: operator.mul, MAX: max, MIN: min,
          LAND: lambda a, b: bool(a) and bool(b), LOR: lambda a, b: bool(a) or bool(b)}[op]
    return functools.reduce(fn, parts)


COMM_WORLD = Comm(range(int(os.environ.get("FAKE_MPI_SIZE", "2"))), 0)
COMM_NULL = None


def _lookup_comm(cid):
    if cid == 0 or WORLD is None:
        return COMM_WORLD
    return WORLD.comms[cid]


NODES = None  # optional list: processor name of every rank (multi-node layouts)


def Get_processor_name():
    if NODES:
        return NODES[getattr(threading.current_thread(), "mpi_rank", 0)]
    return "node0"


# ------------------------------------------------------------------ controller ---


def run_world(size, main, *, send_mode="eager", coll_mode="full", prefix=(), horizon=200000, nodes=None):
    """Run main(rank) on `size` ranks. Returns dict(results, errors, deadlock, trace, leftover)."""
    global WORLD, NODES
    NODES = list(nodes) if nodes else None
    w = WORLD = World(size, send_mode, coll_mode, prefix)
    COMM_WORLD.seq = {}
    results = [None] * size

    def body(r):
        threading.current_thread().mpi_rank = r
        w.sem[r].acquire()
        try:
            if w.pending[r] and w.pending[r].get("abort"):
                raise Abort()
            results[r] = main(r)
        except Abort:
            pass
        except BaseException as e:  # noqa: BLE001
            import traceback

            w.error[r] = (e, traceback.format_exc())
        w.done[r] = True
        w.pending[r] = None
        w.ctl.release()

    threads = [threading.Thread(target=body, args=(r,), daemon=True) for r in range(size)]
    for t in threads:
        t.start()

    def resume(r):
        w.nops += 1
        if w.nops > horizon:
            raise HarnessError("operation horizon exceeded")
        w.pending[r] = None
        w.sem[r].release()
        w.ctl.acquire()

    def choose(cands, labels):
        if len(cands) == 1:
            return 0
        i = len(w.trace)
        if i < len(w.prefix):
            c = w.prefix[i]
            if not (0 <= c < len(cands)):
                raise HarnessError(f"replay divergence at choice {i}: {c} of {len(cands)}")
        else:
            c = 0
        w.trace.append((len(cands), c, labels))
        return c

    deadlock = None
    try:
        for r in range(size):
            resume(r)
        while not all(w.done):
            ops = [(r, op) for r, op in enumerate(w.pending) if op is not None and not w.done[r]]
            fired = False
            # 1. eager sends complete at once
            for r, op in ops:
                if op["kind"] == "send" and not op["sync"]:
                    w.queues.setdefault((op["cid"], r, op["dst"], op["tag"]), []).append(op["data"])
                    resume(r)
                    fired = True
                    break
            if fired:
                continue
            # 2. collectives
            for r, op in ops:
                k = op["kind"]
                if k not in ("barrier", "bcast", "gather", "split"):
                    continue
                comm = COMM_WORLD if op["cid"] == 0 else w.comms[op["cid"]]
                members = comm._members()
                grp = [(q, o) for q, o in ops if o["kind"] == k and o["cid"] == op["cid"] and o["seq"] == op["seq"]]
                key = (op["cid"], k, op["seq"])
                st = w.coll.setdefault(key, dict(values={}, released=set()))
                for q, o in grp:
                    st["values"][q] = o
                full = len(st["values"]) == len(members)
                minimal = w.coll_mode == "minimal"
                release = []
                if k == "bcast":
                    root = op["root"]
                    if root in st["values"] and (full or minimal):
                        data = st["values"][root]["data"]
                        for q, o in grp:
                            o["result"] = data
                        release = [q for q, o in grp]
                elif k == "gather":
                    root = op["root"]
                    if full:
                        vals = [st["values"][m]["data"] for m in members]
                        for q, o in grp:
                            o["result"] = vals if q == root else None
                        release = [q for q, o in grp]
                    elif minimal:
                        release = [q for q, o in grp if q != root]
                elif full:  # barrier, split
                    if k == "split":
                        bycol = {}
                        for q in members:
                            o = st["values"][q]
                            bycol.setdefault(o["color"], []).append((o["key"], q))
                        new = {}
                        for col, lst in sorted(bycol.items()):
                            if col == UNDEFINED:
                                continue
                            cid = w.next_cid
                            w.next_cid += 1
                            new[col] = w.comms[cid] = Comm([q for _, q in sorted(lst)], cid)
                        for q, o in grp:
                            o["result"] = new.get(o["color"])
                    release = [q for q, o in grp]
                if release:
                    for q in release:
                        resume(q)
                    fired = True
                    break
            if fired:
                continue
            # 3. named receives (queued message, else a matching rendezvous sender)
            for r, op in ops:
                if op["kind"] != "recv" or op["src"] == ANY_SOURCE:
                    continue
                if op["tag"] == ANY_TAG:
                    raise HarnessError("ANY_TAG receives are not modelled")
                q = w.queues.get((op["cid"], op["src"], r, op["tag"]))
                if q:
                    op["result"] = q.pop(0)
                    resume(r)
                    fired = True
                    break
                for s, o in ops:
                    if (o["kind"] == "send" and o["sync"] and s == op["src"] and o["dst"] == r
                            and o["tag"] == op["tag"] and o["cid"] == op["cid"]):
                        op["result"] = o["data"]
                        resume(r)
                        resume(s)
                        fired = True
                        break
                if fired:
                    break
            if fired:
                continue
            # 4. wildcard receives: every sender that can match is a branch
            cands = []
            for r, op in ops:
                if op["kind"] == "recv" and op["src"] == ANY_SOURCE:
                    for (cid, s, d, t), ql in sorted(w.queues.items()):
                        if cid == op["cid"] and d == r and t == op["tag"] and ql:
                            cands.append((r, "q", s))
                    for s, o in ops:
                        if (o["kind"] == "send" and o["sync"] and o["dst"] == r and o["tag"] == op["tag"]
                                and o["cid"] == op["cid"]):
                            cands.append((r, "s", s))
            if not cands:
                deadlock = [(r, op["kind"], {k: v for k, v in op.items() if k in ("src", "dst", "tag", "seq", "root", "cid")})
                            for r, op in ops]
                break
            c = choose(cands, [f"recv@{r}<-{s}" for r, _, s in cands])
            r, how, s = cands[c]
            op = w.pending[r]
            if how == "q":
                op["result"] = w.queues[(op["cid"], s, r, op["tag"])].pop(0)
                resume(r)
            else:
                op["result"] = w.pending[s]["data"]
                resume(r)
                resume(s)
    finally:
        # unwind whatever is still parked
        for r in range(size):
            if not w.done[r] and w.pending[r] is not None:
                w.pending[r]["abort"] = True
                w.sem[r].release()
                w.ctl.acquire()
        for t in threads:
            t.join(10)
        w.leftover = sum(len(q) for q in w.queues.values())
        WORLD = None
    return dict(results=results, errors=w.error, deadlock=deadlock, trace=w.trace, leftover=w.leftover, nops=w.nops)
