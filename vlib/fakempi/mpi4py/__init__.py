"""Stand-in for mpi4py used by the C06 check: ranks are cooperative threads of one process and every
nondeterministic choice the MPI standard allows (wildcard matching) is owned by an explorer.
See MPI.py and DESIGN.md (E4, Appendix B)."""
__version__ = "0.0-verif"
