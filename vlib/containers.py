"""Builders and plain-numpy snapshots for yaw's pair-count and data containers.

All contents are *fingerprints*: count cell (b, i, j) holds 2^(i*N+j) * 3^b, the
sum-of-weights vectors hold distinct primes, so any sum of cells names exactly
which cells were added and a permutation, loss or duplication is visible.
"""

from __future__ import annotations

import copy

import numpy as np

PRIMES = [2, 3, 5, 7, 11, 13, 17, 19, 23, 29, 31, 37, 41, 43, 47, 53, 59, 61, 67, 71,
          73, 79, 83, 89, 97, 101, 103, 107, 109, 113, 127, 131, 137, 139, 149, 151]

EDGES = {
    ("eq", 1): [0.1, 0.4], ("eq", 2): [0.1, 0.25, 0.4], ("eq", 3): [0.1, 0.2, 0.3, 0.4],
    ("uneq", 1): [0.2, 0.9], ("uneq", 2): [0.1, 0.2, 0.9], ("uneq", 3): [0.1, 0.2, 0.5, 0.9],
}


def edges_for(B, kind="uneq"):
    if kind.endswith("~"):  # the same edges with the last one moved by 2e-6 (relative): another binning
        e = list(EDGES[(kind[:-1], B)])
        e[-1] = e[-1] * (1.0 + 2e-6)
        return e
    return list(EDGES[(kind, B)])


def fp_counts(B, N, auto, salt=0):
    """Fingerprint count array; upper triangular for auto (as measurements produce)."""
    c = np.zeros((B, N, N))
    for b in range(B):
        for i in range(N):
            for j in range(N):
                if auto and j < i:
                    continue
                c[b, i, j] = float(2 ** (i * N + j)) * 3.0**b * (1 + salt)
    return c


def fp_sumw(B, N, offset=0):
    return np.array([[PRIMES[(offset + b * N + i) % len(PRIMES)] for i in range(N)]
                     for b in range(B)], dtype=float)


def make_binning(B, kind="uneq", closed="right"):
    from yaw import Binning

    return Binning(edges_for(B, kind), closed=closed)


def make_counts(B, N, auto, *, kind="uneq", closed="right", salt=0, counts=None):
    from yaw.correlation.paircounts import PatchedCounts

    if counts is None:
        counts = fp_counts(B, N, auto, salt)
    return PatchedCounts(make_binning(B, kind, closed), np.array(counts, dtype=float), auto=auto)


def make_sumw(B, N, auto, *, kind="uneq", closed="right", off1=0, off2=7, sw1=None, sw2=None):
    from yaw.correlation.paircounts import PatchedSumWeights

    sw1 = fp_sumw(B, N, off1) if sw1 is None else np.array(sw1, dtype=float)
    if sw2 is None:
        sw2 = sw1.copy() if auto else fp_sumw(B, N, off2)
    return PatchedSumWeights(make_binning(B, kind, closed), sw1, np.array(sw2, dtype=float),
                             auto=auto)


def make_norm(B, N, auto, *, kind="uneq", closed="right", salt=0, off1=0, off2=7,
              counts=None, sw1=None, sw2=None):
    from yaw.correlation.paircounts import NormalisedCounts

    return NormalisedCounts(
        make_counts(B, N, auto, kind=kind, closed=closed, salt=salt, counts=counts),
        make_sumw(B, N, auto, kind=kind, closed=closed, off1=off1, off2=off2, sw1=sw1, sw2=sw2),
    )


MEMBER_SUBSETS = [("dr",), ("rd",), ("rr",), ("dr", "rd"), ("dr", "rr"), ("rd", "rr"),
                  ("dr", "rd", "rr")]


def make_corrfunc(B, N, auto, members, *, kind="uneq", closed="right", salt=0):
    """dd uses data totals (off 0 / 7), randoms other totals (off 11 / 17)."""
    from yaw import CorrFunc

    offs = dict(dd=(0, 7), dr=(0, 17), rd=(11, 7), rr=(11, 17))
    salts = dict(dd=0, dr=1, rd=2, rr=3)
    kw = {}
    for m in ("dd",) + tuple(members):
        o1, o2 = offs[m]
        if auto:
            # auto: dd (data,data), dr (data,random), rr (random,random)
            o2 = o1 if m in ("dd", "rr") else o2
        nc_auto = auto if m in ("dd", "rr") else False
        # containers of one CorrFunc share the auto flag of dd in real measurements only for
        # dd/rr; dr of an autocorrelation is a cross count
        cnt = fp_counts(B, N, nc_auto, salts[m] + salt)
        sw1 = fp_sumw(B, N, o1)
        sw2 = sw1.copy() if (nc_auto) else fp_sumw(B, N, o2)
        kw[m] = make_norm(B, N, nc_auto, kind=kind, closed=closed, counts=cnt, sw1=sw1, sw2=sw2)
    return CorrFunc(**kw)


def make_corrdata(cls_name, B, M, *, kind="uneq", closed="right", salt=0):
    import yaw

    cls = getattr(yaw, cls_name)
    data = np.array([PRIMES[b] + 0.5 * salt for b in range(B)], dtype=float)
    samples = np.array([[PRIMES[b] * 10 + PRIMES[5 + k] + salt for b in range(B)]
                        for k in range(M)], dtype=float)
    return cls(make_binning(B, kind, closed), data, samples)


# ---------------------------------------------------------------- snapshots ---


def snap(x):
    """Plain nested dict of numpy arrays describing a container."""
    name = type(x).__name__
    if x is None:
        return None
    if name == "Binning":
        return dict(T=name, edges=np.array(x.edges), closed=str(x.closed))
    if name == "PatchedCounts":
        return dict(T=name, binning=snap(x.binning), auto=bool(x.auto), counts=np.array(x.counts))
    if name == "PatchedSumWeights":
        return dict(T=name, binning=snap(x.binning), auto=bool(x.auto),
                    sw1=np.array(x.sum_weights1), sw2=np.array(x.sum_weights2))
    if name == "NormalisedCounts":
        return dict(T=name, counts=snap(x.counts), sum_weights=snap(x.sum_weights))
    if name == "CorrFunc":
        return dict(T=name, **{m: snap(getattr(x, m)) for m in ("dd", "dr", "rd", "rr")})
    if name in ("CorrData", "HistData", "RedshiftData", "SampledData"):
        return dict(T=name, binning=snap(x.binning), data=np.array(x.data),
                    samples=np.array(x.samples))
    raise TypeError(name)


def snap_equal(a, b, tol=0.0):
    if a is None or b is None:
        return a is None and b is None
    if isinstance(a, dict):
        if not isinstance(b, dict) or a.keys() != b.keys():
            return False
        return all(snap_equal(a[k], b[k], tol) for k in a)
    if isinstance(a, np.ndarray):
        if not isinstance(b, np.ndarray) or a.shape != b.shape:
            return False
        if tol == 0.0:
            return bool(np.array_equal(a, b, equal_nan=True))
        return bool(np.allclose(a, b, rtol=tol, atol=0.0, equal_nan=True))
    return a == b


def sel_binning(s, idx):
    left, right = s["edges"][:-1], s["edges"][1:]
    l, r = left[idx], right[idx]
    return dict(T="Binning", edges=np.append(l, r[-1]), closed=s["closed"])


def sel_bins(s, idx):
    """Expected snapshot after selecting bins with integer index array idx."""
    if s is None:
        return None
    T = s["T"]
    if T == "PatchedCounts":
        return dict(s, binning=sel_binning(s["binning"], idx), counts=s["counts"][idx])
    if T == "PatchedSumWeights":
        return dict(s, binning=sel_binning(s["binning"], idx), sw1=s["sw1"][idx], sw2=s["sw2"][idx])
    if T == "NormalisedCounts":
        return dict(s, counts=sel_bins(s["counts"], idx), sum_weights=sel_bins(s["sum_weights"], idx))
    if T == "CorrFunc":
        return dict(T=T, **{m: sel_bins(s[m], idx) for m in ("dd", "dr", "rd", "rr")})
    return dict(s, binning=sel_binning(s["binning"], idx), data=s["data"][idx],
                samples=s["samples"][:, idx])


def sel_patches(s, idx):
    if s is None:
        return None
    T = s["T"]
    if T == "PatchedCounts":
        return dict(s, counts=s["counts"][:, idx][:, :, idx])
    if T == "PatchedSumWeights":
        return dict(s, sw1=s["sw1"][:, idx], sw2=s["sw2"][:, idx])
    if T == "NormalisedCounts":
        return dict(s, counts=sel_patches(s["counts"], idx),
                    sum_weights=sel_patches(s["sum_weights"], idx))
    if T == "CorrFunc":
        return dict(T=T, **{m: sel_patches(s[m], idx) for m in ("dd", "dr", "rd", "rr")})
    raise TypeError(T)


def scaled(s, f):
    """Expected snapshot after multiplying the counts by f."""
    if s is None:
        return None
    T = s["T"]
    if T == "PatchedCounts":
        return dict(s, counts=s["counts"] * f)
    if T == "NormalisedCounts":
        return dict(s, counts=scaled(s["counts"], f))
    if T == "CorrFunc":
        return dict(T=T, **{m: scaled(s[m], f) for m in ("dd", "dr", "rd", "rr")})
    raise TypeError(T)


def added(a, b, sign=1.0):
    if a is None:
        return None
    T = a["T"]
    if T == "PatchedCounts":
        return dict(a, counts=a["counts"] + b["counts"])
    if T == "NormalisedCounts":
        return dict(a, counts=added(a["counts"], b["counts"]))
    if T == "CorrFunc":
        return dict(T=T, **{m: added(a[m], b[m]) for m in ("dd", "dr", "rd", "rr")})
    return dict(a, data=a["data"] + sign * b["data"], samples=a["samples"] + sign * b["samples"])


def clone(x):
    return copy.deepcopy(x)
