"""C13 - invariance under rotations, row order, patch labels, weight scale; additivity.

Engine E1: every base scenario x every transformation of a finite transformation alphabet;
the oracle is a relation between two runs of the real pipeline (no expected value needed).
"""

from __future__ import annotations

import itertools

import numpy as np

from vlib import runner, worlds, yawx

PROPERTY = "C13"
LEVEL = "exploration"
RULE = (
    "base scenarios: probe a {b0,w0,n0|all} x z slot x probe b {b1,c1,n0|all} x patches {2,3} x configuration "
    "{3 angular scales; kpc scales; separation weighting; one small scale} on catalogs with >= 2 objects per patch and bin; "
    "transformations: rotations {straddling RA=0, centre on north pole, on south pole, pole on a patch "
    "border, generic}, also with right ascensions given in (-180,180] (radian and degree input); row orders {reverse, rotate by one, swap first two, interleave | all permutations for "
    "n<=4}; every permutation of the centre list; weight factors {1e-3,0.5,2,1e3,1e-12} on each of the four catalogs; "
    "every split of the unknown catalog into two catalogs that both cover all patches. Oracle: CorrFunc.sample() "
    "data/samples(permuted accordingly)/covariance and RedshiftData.from_corrfuncs equal to 1e-9, raw counts of "
    "the halves add up. Skipped by rule: base scenario with a pair within 1e-9 of a scale limit. Non-trivial: "
    "the compared amplitude has a finite non-zero entry."
)
ASSUMPTIONS = [
    "a rotation may legitimately flip a pair lying within rounding of a scale limit; such scenarios are skipped by rule",
    "non-finite amplitudes (empty RR in a bin or jackknife sample) are one class 'undefined': nan and +-inf are not told apart",
]

CONFIGS = [
    dict(binning="B2r", scales="ang3", unit="deg", rweight=None, res=None),
    dict(binning="B2r", scales="ang2", unit="kpc", rweight=None, res=None),
    dict(binning="B2l", scales="ang2", unit="deg", rweight=-1.0, res=3),
    # one small scale: patch pairs are linked only thanks to the radius of the widest catalog
    dict(binning="B2r", scales="ang1", unit="deg", rweight=None, res=None),
]
FACTORS = (1e-3, 0.5, 2.0, 1e3, 1e-12)


def cases(tier, seed):
    out = []
    if tier == "quick":
        pas, pbs, zs, nps, confs = ["b0", "w0", "n0"], ["b1", "c1", "n0"], [0, -1], [2, 3], [0, 1, 3]
    else:
        pas, pbs, zs, nps, confs = (["c0", "b0", "w0", "n0", "f0"], ["c1", "b1", "n0", "n1", "f1"], [0, -1],
                                    [2, 3], [0, 1, 2, 3])
    for ci, pa, za, pb, npatch in itertools.product(confs, pas, zs, pbs, nps):
        base = dict(conf=ci, pa=pa, za=za, pb=pb, npatch=npatch, seed=seed)
        for w in ("straddle", "npole", "spole", "midpole", "generic"):
            out.append(dict(base, T="rotate", world=w))
        # the same rotated field with right ascensions given in (-180, 180] instead of [0, 360): radian and degree input
        for w, rep in (("straddle", "neg-rad"), ("straddle", "neg-deg"), ("npole", "neg-rad")):
            if tier == "quick" and (ci != confs[0] or rep == "neg-deg" and npatch == 3):
                continue
            out.append(dict(base, T="rotate", world=w, ra_repr=rep))
        for kind in ("reverse", "roll", "swap01", "interleave"):
            out.append(dict(base, T="rows", kind=kind))
        for perm in itertools.permutations(range(npatch)):
            if list(perm) != sorted(perm):
                out.append(dict(base, T="centres", perm=list(perm)))
        for cat, f in itertools.product(("R", "U", "RR", "UR"), FACTORS):
            if tier == "quick" and f in (0.5, 2.0, 1e-12) and cat in ("RR", "UR"):
                continue
            out.append(dict(base, T="weights", cat=cat, factor=f))
        if tier != "quick" or (npatch == 2 and za == 0):
            out.append(dict(base, T="split"))
    return out


def setup():
    yawx.sequential()
    import warnings

    warnings.simplefilter("ignore")
    np.seterr(all="ignore")


def build(case):
    conf = CONFIGS[case["conf"]]
    edges, _ = worlds.BINNINGS[conf["binning"]]
    mids = [(a + b) / 2 for a, b in zip(edges[:-1], edges[1:])]
    seed, npatch = case["seed"], case["npatch"]
    prime = iter([2, 3, 5, 7, 11, 13, 17, 19, 23, 29, 31, 37, 41, 43, 47, 53, 59, 61, 67, 71, 73, 79, 83, 89,
                  97, 101, 103, 107, 109, 113, 127, 131, 137, 139, 149, 151, 157, 163, 167, 173, 179, 181])

    def o(pos, z, tag, dra=0.0, row=0):
        ob = worlds.obj(pos, row=row, z=z, w=float(next(prime)), seed=seed, tag=tag)
        ob["ra"] += dra
        return ob

    R, U, RR, UR = [], [], [], []
    for i, c in enumerate(["c0", "c1", "c2"][:npatch]):
        R += [o(c, mids[0], "R0"), o(c, mids[-1], "R1", 0.5), o(c, mids[0], "R2", -0.7, 1)]
        U += [o(c, None, "U0", 0.2), o(c, None, "U1", -0.6), o(c, None, "U2", 1.0, 1)]
        RR += [o(c, mids[0], "RR0", 0.31), o(c, mids[-1], "RR1", -0.25), o(c, mids[0], "RR2", 1.2),
               o(c, mids[-1], "RR3", 1.5, 1)]
        UR += [o(c, None, "UR0", -0.45), o(c, None, "UR1", 0.9, 1)]
    # two more reference objects in patch 0 only: which catalog counts as "largest" then depends on the
    # patch labelling (per-patch record counts are compared as tuples), so relabelling toggles it
    R += [o("c0", mids[-1], "R3", -0.3), o("c0", mids[0], "R4", 0.15, 1)]
    R.append(o(case["pa"], mids[case["za"]], "a"))
    U.append(o(case["pb"], None, "b"))
    return conf, [R, U, RR, UR]


def measure(conf, world, objs, npatch, *, cen_perm=None, row_perm=None, wfactor=None, only_counts=False,
            cats=None, cen_n=None, ra_repr=None):
    import yaw

    edges, closed = worlds.BINNINGS[conf["binning"]]
    rmin, rmax = worlds.scale_config(conf["scales"], conf["unit"], conf["binning"])
    if cats is None:
        cats = [worlds.realise(world, o, npatch) for o in objs]
    cen = worlds.centres(world, cen_n or npatch)
    if cen_perm is not None:
        cen = cen[cen_perm]
    lib = []
    d = runner.fresh_dir("c13")
    for name, c in zip(("R", "U", "RR", "UR"), cats):
        c = dict(c)
        if wfactor and wfactor[0] == name:
            c["w"] = c["w"] * wfactor[1]
        if row_perm is not None:
            p = row_perm(len(c["ra"]))
            for k in ("ra", "dec", "z", "w"):
                if c[k] is not None:
                    c[k] = np.asarray(c[k])[p]
        kw = {}
        if ra_repr:
            ra = np.asarray(c["ra"], dtype=float)
            c["ra"] = np.where(ra > np.pi, ra - 2.0 * np.pi, ra)
            if ra_repr == "neg-deg":
                c["ra"], c["dec"] = np.rad2deg(c["ra"]), np.rad2deg(c["dec"])
                kw["degrees"] = True
        lib.append(worlds.make_catalog(f"{d}/{name}", c, cen, **kw))
    cR, cU, cRR, cUR = lib
    config = yaw.Configuration.create(rmin=rmin, rmax=rmax, unit=conf["unit"], edges=edges, closed=closed,
                                      rweight=conf["rweight"], resolution=conf["res"])
    cross = yaw.crosscorrelate(config, cR, cU, ref_rand=cRR, unk_rand=cUR)
    out = dict(counts={k: [getattr(cf, k).counts.counts.copy() for cf in cross] for k in ("dd", "dr", "rd", "rr")},
               sw2={k: [getattr(cf, k).sum_weights.sum_weights2.copy() for cf in cross] for k in ("dd", "rd")})
    if only_counts:
        return out
    auto = yaw.autocorrelate(config, cR, cRR)
    cds = [cf.sample() for cf in cross]
    nzs = [yaw.RedshiftData.from_corrfuncs(c, a) for c, a in zip(cross, auto)]
    out.update(data=[c.data for c in cds], samples=[c.samples for c in cds],
               cov=[c.covariance for c in cds], nz=[n.data for n in nzs], nzs=[n.samples for n in nzs],
               auto=[a.sample().data for a in auto])
    return out


def near_limit(conf, world, cats, npatch):
    edges, closed = worlds.BINNINGS[conf["binning"]]
    rmin, rmax = worlds.scale_config(conf["scales"], conf["unit"], conf["binning"])
    mids = [(a + b) / 2 for a, b in zip(edges[:-1], edges[1:])]
    angles = [worlds.ref_angles(rmin, rmax, conf["unit"], z) for z in mids]
    kw = dict(edges=edges, closed=closed, npatch=npatch, angles=angles, rweight=conf["rweight"], res=conf["res"])
    R, U, RR, UR = cats
    pairs = [(R, U, False), (R, UR, False), (RR, U, False), (RR, UR, False), (R, RR, True), (R, R, True), (RR, RR, True)]
    return any(worlds.ref_paircounts(a, b, binned1=True, binned2=b2, **kw)["near_limit"] for a, b, b2 in pairs)


def close(a, b, rtol=1e-9):
    a, b = np.asarray(a, dtype=float), np.asarray(b, dtype=float)
    if a.shape != b.shape:
        return False
    # x/0 with x = 0 up to rounding is nan in one run and +-inf in the other: all "undefined"
    a = np.where(np.isfinite(a), a, np.nan)
    b = np.where(np.isfinite(b), b, np.nan)
    scale = np.nanmax(np.abs(np.where(np.isfinite(a), a, 0.0))) if a.size else 0.0
    return bool(np.allclose(a, b, rtol=rtol, atol=1e-12 * max(scale, 1e-300), equal_nan=True))


def viol(sig, what, detail=None):
    return dict(signature=sig, what=what, detail=detail)


def compare(base, other, T, v, sample_perm=None, counts_too=True, tag=""):
    S = len(base["data"])
    for s in range(S):
        for name in ("data", "nz", "auto"):
            if not close(base[name][s], other[name][s]):
                v.append(viol(f"C13/{T}/{name}{tag}", f"{name} changes under {T}{tag}: scale {s}: "
                              f"{np.asarray(base[name][s]).tolist()} -> {np.asarray(other[name][s]).tolist()}"))
                return
        for name in ("samples", "nzs"):
            want = base[name][s] if sample_perm is None else base[name][s][sample_perm]
            if not close(want, other[name][s]):
                v.append(viol(f"C13/{T}/{name}{tag}", f"jackknife {name} change under {T}{tag} (scale {s})"))
                return
        if not close(base["cov"][s], other["cov"][s], rtol=1e-8):
            v.append(viol(f"C13/{T}/covariance{tag}", f"covariance changes under {T}{tag} (scale {s})"))
            return
    if counts_too:
        for kind in ("dd", "dr", "rd", "rr"):
            for s in range(S):
                a, b = base["counts"][kind][s], other["counts"][kind][s]
                if sample_perm is not None:
                    a = a[:, sample_perm][:, :, sample_perm]
                if not close(a, b):
                    v.append(viol(f"C13/{T}/counts-{kind}{tag}", f"raw {kind} counts change under {T}{tag} (scale {s})"))
                    return


ROWPERM = {
    "reverse": lambda n: np.arange(n)[::-1],
    "roll": lambda n: np.roll(np.arange(n), 1),
    "swap01": lambda n: np.array([1, 0] + list(range(2, n))),
    "interleave": lambda n: np.concatenate([np.arange(0, n, 2), np.arange(1, n, 2)]),
}


def run_case(case):
    conf, objs = build(case)
    npatch, T = case["npatch"], case["T"]
    world0 = "equator"
    cats0 = [worlds.realise(world0, o, npatch) for o in objs]
    if min(float(c["margin"].min()) for c in cats0) < 1e-9:
        return dict(status="skip", skip_rule="object within 1e-9 rad of a Voronoi border")
    if near_limit(conf, world0, cats0, npatch):
        return dict(status="skip", skip_rule="pair within 1e-9 of a scale limit")
    v = []
    try:
        if T == "split":
            base = measure(conf, world0, objs, npatch, only_counts=True, cats=cats0)
            U = cats0[1]
            n = len(U["ra"])
            nsplit = 0
            for mask in range(1, 2 ** n - 1):
                sel = np.array([(mask >> i) & 1 for i in range(n)], dtype=bool)
                if mask & 1 == 0:
                    continue  # unordered splits: object 0 always in the first half
                halves = []
                for m in (sel, ~sel):
                    if len(set(U["patch"][m].tolist())) < npatch:
                        halves = None
                        break
                    halves.append({k: (np.asarray(val)[m] if val is not None and k != "names" else val)
                                   for k, val in U.items()})
                if halves is None:
                    continue
                nsplit += 1
                parts = [measure(conf, world0, objs, npatch, only_counts=True,
                                 cats=[cats0[0], h, cats0[2], cats0[3]]) for h in halves]
                for kind in ("dd", "rd"):
                    for s in range(len(base["counts"][kind])):
                        tot = parts[0]["counts"][kind][s] + parts[1]["counts"][kind][s]
                        if not close(base["counts"][kind][s], tot, rtol=1e-12):
                            v.append(viol(f"C13/split/counts-{kind}", f"{kind} counts of the two halves do not add up "
                                          f"to the unsplit counts (split mask {mask:b}, scale {s})", case))
                        sw = parts[0]["sw2"][kind][s] + parts[1]["sw2"][kind][s]
                        if not close(base["sw2"][kind][s], sw, rtol=1e-12):
                            v.append(viol(f"C13/split/sum-weights-{kind}", "sum of weights of the halves do not add up", case))
                for kind in ("dr", "rr"):
                    for s in range(len(base["counts"][kind])):
                        if not close(base["counts"][kind][s], parts[0]["counts"][kind][s], rtol=0):
                            v.append(viol(f"C13/split/counts-{kind}", f"{kind} counts depend on the unknown catalog", case))
                if v:
                    break
            nontrivial = nsplit > 0 and any(c.any() for c in base["counts"]["dd"])
            res = dict(nontrivial=bool(nontrivial), key=case, counters=dict(pipelines=1 + 2 * nsplit, splits=nsplit))
        else:
            base = measure(conf, world0, objs, npatch, cats=cats0)
            if T == "rotate":
                other = measure(conf, case["world"], objs, npatch, ra_repr=case.get("ra_repr"))
                compare(base, other, "rotate", v, tag=f"/{case['world']}" + (f"/{case['ra_repr']}" if case.get("ra_repr") else ""))
            elif T == "rows":
                other = measure(conf, world0, objs, npatch, row_perm=ROWPERM[case["kind"]], cats=cats0)
                compare(base, other, "rows", v)
            elif T == "centres":
                perm = np.array(case["perm"])
                other = measure(conf, world0, objs, npatch, cen_perm=perm, cats=cats0)
                compare(base, other, "centres", v, sample_perm=perm)
            elif T == "weights":
                other = measure(conf, world0, objs, npatch, wfactor=(case["cat"], case["factor"]), cats=cats0)
                compare(base, other, "weights", v, counts_too=False, tag=f"/{case['cat']}")
            finite = any(np.isfinite(d).any() and np.any(np.nan_to_num(d) != 0) for d in base["data"])
            res = dict(nontrivial=bool(finite), key=case, counters=dict(pipelines=2))
    except Exception as e:
        v.append(viol(f"C13/{T}/exception:{type(e).__name__}", f"pipeline raised {yawx.exc_name(e)}", case))
        res = dict(nontrivial=True, key=case)
    if v:
        uniq = {}
        for x in v:
            uniq.setdefault(x["signature"], x)
        res.update(status="violation", violations=list(uniq.values()))
    return res
