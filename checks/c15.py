"""C15 - configurations mean what their parameters say; modify == create.

Engine E1 over the parameter product (create), an invalid-parameter alphabet, and every
single and pairwise modification of a set of base configurations. References: linspace by
hand, expm1/log1p, own bisection on astropy's comoving distance, r/D(z) from astropy.
"""

from __future__ import annotations

import itertools
import warnings

import numpy as np

from vlib import runner, yawx

PROPERTY = "C15"
LEVEL = "exploration"
RULE = (
    "create: method{linear,comoving,logspace} x closed x (zmin,zmax,num_bins){4} x unit{8} x scales{single,"
    "3 overlapping, 2 nested} x rweight/resolution{5, incl. rweight=0.0 and a resolution without rweight} x cosmology{default name, instance, other name, CustomCosmology with D_A != D_C/(1+z), closed LambdaCDM instance; the last two are created after a decoy configuration with a sibling instance of the same class and other parameters}; "
    "custom edges; invalid alphabet (non-increasing edges, NaN edges, zmin/zmax NaN or inf, rmin>=rmax, unknown method/unit/cosmology, "
    "missing zmin/zmax/edges, length mismatch); modify: every single parameter value (incl. the falsy values zmin=0, zmax=0, num_bins=0, rweight=0) and every pair of "
    "parameter values on 9 base configurations vs create(**merged); after a single modification a second, different one of the same original (must start from the original again). Non-trivial: non-default cosmology or "
    "non-linear method or a modification that changes the edges/angles. Distinct: canonical JSON."
)
ASSUMPTIONS = [
    "interior comoving edges are compared to 1e-6 (z_at_value's own tolerance), linear/log edges to 1e-12; "
    "first and last edge must equal zmin/zmax exactly",
    "for Mpc/h and kpc/h the angle is r/D_C(z) with r taken at face value (the statement names no h conversion)",
    "on a custom-edges base, modifying zmin/zmax/num_bins/method without edges has no defined merged meaning "
    "and is not exercised; neither are pairs that set edges together with zmin/zmax/num_bins/method",
]

METHODS = ("linear", "comoving", "logspace")
ZSPECS = ((0.1, 1.0, 3), (0.07, 1.3, 7), (0.0, 0.9, 2), (0.01, 0.03, 2), (0.2, 0.5, 1))
UNIT_SCALES = {
    "kpc": (100.0, 1000.0), "Mpc": (0.1, 1.0), "rad": (0.001, 0.01), "deg": (0.1, 1.0),
    "arcmin": (1.0, 10.0), "arcsec": (10.0, 100.0), "kpc/h": (100.0, 1000.0), "Mpc/h": (0.1, 1.0),
}
MULTI = ((1.0, 2.0), (1.5, 5.0), (3.0, 10.0))
RW = ((None, None), (-1.0, 50), (0.5, 3), (0.0, 10), (None, 25))
COSMOS = ("Planck15", "inst:Planck15", "WMAP9", "custom", "curved")
CUSTOM_EDGES = [0.1, 0.2, 0.5, 0.9]


def _toy_class():
    from vlib.toycosmo import Toy

    return Toy


def cosmo_obj(tag):
    import astropy.cosmology as ac
    from yaw.cosmology import CustomCosmology

    if tag is None or tag == "None":
        return None
    if tag.startswith("inst:"):
        return getattr(ac, tag[5:])
    if tag == "curved":
        # spatially closed model: transverse and line-of-sight comoving distances differ
        return ac.LambdaCDM(H0=70.0, Om0=0.3, Ode0=0.9)
    if tag == "curved-sibling":
        return ac.LambdaCDM(H0=70.0, Om0=0.3, Ode0=0.5)
    if tag in ("custom", "custom-sibling"):
        return _toy_class()(*((3000.0, 0.25) if tag == "custom" else (1900.0, 0.6)))
    return tag


def distances(tag):
    """Independent distance functions for the reference."""
    import astropy.cosmology as ac

    if tag == "custom":
        c = cosmo_obj("custom")
        return c.comoving_distance, c.angular_diameter_distance
    name = "Planck15" if tag in (None, "None") else tag.replace("inst:", "")
    cosmo = cosmo_obj("curved") if tag == "curved" else getattr(ac, name)
    return (lambda z: np.asarray(cosmo.comoving_distance(z).value, dtype=float),
            lambda z: np.asarray(cosmo.angular_diameter_distance(z).value, dtype=float))


def scales_for(unit, multi):
    lo, hi = UNIT_SCALES[unit]
    if not multi:
        return lo, hi
    if multi == "nested":  # second scale nested inside the first: rmin ascending, rmax descending
        return [lo, lo * 3.0], [lo * 12.0, lo * 6.0]
    return [lo * a for a, _ in MULTI], [lo * b for _, b in MULTI]


def cases(tier, seed):
    out = []
    zspecs = ZSPECS if tier == "thorough" else ZSPECS[:3]
    for method, closed, zs, unit, multi, rw, cosmo in itertools.product(
            METHODS, ("right", "left"), zspecs, UNIT_SCALES, (False, True, "nested"), RW, COSMOS):
        if multi == "nested" and (tier != "thorough" and (method != "linear" or rw != RW[0])):
            continue
        if tier != "thorough" and method == "comoving" and rw != RW[0] and multi:
            continue  # comoving bins cost ~10 ms each; scales/rweight do not interact with them
        rmin, rmax = scales_for(unit, multi)
        p = dict(rmin=rmin, rmax=rmax, unit=unit, rweight=rw[0], resolution=rw[1], zmin=zs[0],
                 zmax=zs[1], num_bins=zs[2], method=method, closed=closed, cosmology=cosmo)
        out.append(dict(part="create", params=p))
    for closed, unit, cosmo in itertools.product(("right", "left"), UNIT_SCALES, COSMOS):
        rmin, rmax = scales_for(unit, False)
        out.append(dict(part="create", params=dict(rmin=rmin, rmax=rmax, unit=unit, edges=CUSTOM_EDGES,
                                                   closed=closed, cosmology=cosmo)))
    # invalid parameters
    good = dict(rmin=100.0, rmax=1000.0, zmin=0.1, zmax=1.0, num_bins=3)
    bad = [
        ("non-increasing-edges", dict(rmin=100.0, rmax=1000.0, edges=[0.1, 0.3, 0.2])),
        ("repeated-edge", dict(rmin=100.0, rmax=1000.0, edges=[0.1, 0.2, 0.2, 0.4])),
        ("single-edge", dict(rmin=100.0, rmax=1000.0, edges=[0.1])),
        ("nan-edge-first", dict(rmin=100.0, rmax=1000.0, edges=[float("nan"), 0.2, 0.3])),
        ("nan-edge-middle", dict(rmin=100.0, rmax=1000.0, edges=[0.1, float("nan"), 0.3])),
        ("nan-edge-last", dict(rmin=100.0, rmax=1000.0, edges=[0.1, 0.2, float("nan")])),
        ("nan-zmin", dict(good, zmin=float("nan"))),
        ("nan-zmax", dict(good, zmax=float("nan"))),
        ("inf-zmax", dict(good, zmax=float("inf"))),
        ("rmin>rmax", dict(good, rmin=1000.0, rmax=100.0)),
        ("rmin==rmax", dict(good, rmin=100.0, rmax=100.0)),
        ("rmin>rmax-in-list", dict(good, rmin=[100.0, 500.0], rmax=[200.0, 400.0])),
        ("scale-length-mismatch", dict(good, rmin=[100.0, 200.0], rmax=[1000.0])),
        ("unknown-method", dict(good, method="quadratic")),
        ("unknown-unit", dict(good, unit="parsec")),
        ("unknown-cosmology", dict(good, cosmology="Planck1999")),
        ("cosmology-wrong-type", dict(good, cosmology=42)),
        ("unknown-closed", dict(good, closed="both")),
        ("no-binning", dict(rmin=100.0, rmax=1000.0)),
        ("only-zmin", dict(rmin=100.0, rmax=1000.0, zmin=0.1)),
        ("only-zmax", dict(rmin=100.0, rmax=1000.0, zmax=1.0)),
        ("zmin>zmax", dict(good, zmin=1.0, zmax=0.1)),
        ("zmin==zmax", dict(good, zmin=0.5, zmax=0.5)),
    ]
    for method in METHODS:
        bad.append((f"zmin>zmax/{method}", dict(good, zmin=1.0, zmax=0.1, method=method)))
    for name, p in bad:
        out.append(dict(part="invalid", name=name, params=p))

    # modifications
    bases = [
        dict(rmin=100.0, rmax=1000.0, unit="kpc", zmin=0.1, zmax=1.0, num_bins=3, method="linear",
             closed="right", cosmology="Planck15"),
        dict(rmin=100.0, rmax=1000.0, unit="kpc", zmin=0.1, zmax=1.0, num_bins=3, method="comoving",
             closed="right", cosmology="WMAP9"),
        dict(rmin=0.1, rmax=1.0, unit="Mpc/h", zmin=0.07, zmax=1.3, num_bins=4, method="logspace",
             closed="left", cosmology="WMAP9", rweight=-1.0, resolution=20),
        dict(rmin=[100.0, 200.0], rmax=[500.0, 1000.0], unit="kpc", zmin=0.1, zmax=1.0, num_bins=3,
             method="comoving", closed="right", cosmology="custom"),
        dict(rmin=100.0, rmax=1000.0, unit="kpc", edges=CUSTOM_EDGES, closed="right", cosmology="Planck15"),
        dict(rmin=0.1, rmax=1.0, unit="deg", edges=CUSTOM_EDGES, closed="left", cosmology="WMAP9",
             max_workers=2),
        dict(rmin=100.0, rmax=1000.0, unit="kpc", zmin=0.1, zmax=1.0, num_bins=3, method="comoving",
             closed="right", cosmology="inst:WMAP9"),
        dict(rmin=100.0, rmax=1000.0, unit="kpc", zmin=0.1, zmax=1.0, num_bins=3, method="linear",
             closed="right"),
        dict(rmin=0.1, rmax=1.0, unit="deg", zmin=0.1, zmax=1.0, num_bins=3, method="linear",
             closed="left", rweight=0.0, resolution=10),
    ]
    mods = [
        ("scales", dict(rmin=50.0, rmax=2000.0)), ("scales", dict(rmin=[50.0, 100.0], rmax=[200.0, 400.0])),
        ("rmin", dict(rmin=10.0)), ("rmax", dict(rmax=5000.0)),
        ("unit", dict(unit="Mpc")), ("unit", dict(unit="arcmin")), ("unit", dict(unit="kpc/h")),
        ("rweight", dict(rweight=-0.5)), ("rweight", dict(rweight=None)),
        ("resolution", dict(resolution=7)), ("resolution", dict(resolution=None)),
        ("zmin", dict(zmin=0.2)), ("zmax", dict(zmax=1.5)), ("num_bins", dict(num_bins=5)),
        ("zmin", dict(zmin=0.0)), ("zmax", dict(zmax=0.0)), ("num_bins", dict(num_bins=0)),
        ("rweight", dict(rweight=0.0)), ("cosmology", dict(cosmology="curved")),
        ("method", dict(method="linear")), ("method", dict(method="comoving")),
        ("method", dict(method="logspace")),
        ("edges", dict(edges=[0.3, 0.4, 0.6])),
        ("closed", dict(closed="left")), ("closed", dict(closed="right")),
        ("cosmology", dict(cosmology="WMAP9")), ("cosmology", dict(cosmology="Planck13")),
        ("cosmology", dict(cosmology="inst:WMAP7")), ("cosmology", dict(cosmology="custom")),
        ("cosmology", dict(cosmology="None")),
        ("max_workers", dict(max_workers=3)), ("max_workers", dict(max_workers=None)),
    ]
    binning_params = {"zmin", "zmax", "num_bins", "method"}
    for bi, base in enumerate(bases):
        custom = "edges" in base
        single = [(n, m) for n, m in mods if not (custom and n in binning_params)]
        for n, m in single:
            out.append(dict(part="modify", base=base, mod=m, names=[n]))
        if tier == "quick" and bi in (3, 6):
            continue
        for (n1, m1), (n2, m2) in itertools.combinations(single, 2):
            if n1 == n2 or set(m1) & set(m2):
                continue
            if "edges" in (n1, n2) and ({n1, n2} & binning_params):
                continue
            out.append(dict(part="modify", base=base, mod=dict(m1, **m2), names=[n1, n2]))
    return out


def setup():
    yawx.sequential()
    warnings.simplefilter("ignore")


def realise(params):
    p = dict(params)
    if "cosmology" in p:
        p["cosmology"] = cosmo_obj(p["cosmology"])
    return p


def viol(sig, what, detail=None):
    return dict(signature=sig, what=what, detail=detail)


def ref_edges(method, zmin, zmax, n, cosmo_tag):
    if method == "linear":
        e = np.array([zmin + (zmax - zmin) * i / n for i in range(n + 1)])
    elif method == "logspace":
        l0, l1 = np.log1p(zmin), np.log1p(zmax)
        e = np.expm1(np.array([l0 + (l1 - l0) * i / n for i in range(n + 1)]))
    else:
        dc, _ = distances(cosmo_tag)
        d0, d1 = float(dc(zmin)), float(dc(zmax))
        e = []
        for i in range(n + 1):
            target = d0 + (d1 - d0) * i / n
            lo, hi = zmin, zmax
            for _ in range(200):
                mid = 0.5 * (lo + hi)
                if float(dc(mid)) < target:
                    lo = mid
                else:
                    hi = mid
            e.append(0.5 * (lo + hi))
        e = np.array(e)
    e[0], e[-1] = zmin, zmax
    return e


def ref_angles(params, z):
    unit = params["unit"] if "unit" in params else "kpc"
    rmin = np.atleast_1d(np.asarray(params["rmin"], dtype=float))
    rmax = np.atleast_1d(np.asarray(params["rmax"], dtype=float))
    dc, da = distances(params.get("cosmology"))
    out = []
    for r in (rmin, rmax):
        if unit == "rad":
            a = r
        elif unit == "deg":
            a = r * np.pi / 180.0
        elif unit == "arcmin":
            a = r / 60.0 * np.pi / 180.0
        elif unit == "arcsec":
            a = r / 3600.0 * np.pi / 180.0
        elif unit in ("kpc", "Mpc"):
            a = (r / 1000.0 if unit == "kpc" else r) / float(da(z))
        else:
            a = (r / 1000.0 if unit == "kpc/h" else r) / float(dc(z))
        out.append(a)
    return out


def describe(conf):
    """Observable meaning of a configuration: edges, closed, angles at probe redshifts, rweight..."""
    zs = (0.05, 0.3, 0.9)
    ang = [[np.asarray(a).tolist() for a in conf.scales.scales.get_angle_radian(z, conf.cosmology)]
           for z in zs]
    return dict(edges=conf.binning.edges.tolist(), closed=str(conf.binning.closed),
                method=str(conf.binning.method), angles=ang, rweight=conf.scales.rweight,
                resolution=conf.scales.resolution, unit=conf.scales.unit,
                max_workers=conf.max_workers, num_scales=conf.scales.num_scales)


def same_meaning(a, b, tol=1e-12):
    for k in a:
        if k in ("edges", "angles"):
            x, y = np.asarray(a[k], dtype=float), np.asarray(b[k], dtype=float)
            if x.shape != y.shape or not np.allclose(x, y, rtol=tol, atol=0.0):
                return k
        elif a[k] != b[k]:
            return k
    return None


def run_create(case):
    import yaw

    P = case["params"]
    v = []
    tag = f"{P.get('method', 'custom')}/{P.get('cosmology')}"
    if P.get("cosmology") in ("curved", "custom"):
        # an earlier configuration in the same process that differs only in the parameters of an unnamed cosmology of
        # the same class: nothing of it may leak into the configuration that is checked
        try:
            yaw.Configuration.create(**realise(dict(P, cosmology=P["cosmology"] + "-sibling")))
        except Exception:
            pass
    try:
        conf = yaw.Configuration.create(**realise(P))
    except Exception as e:
        return [viol(f"C15/create/exception:{type(e).__name__}/{tag}",
                     f"valid parameters rejected: {yawx.exc_name(e)}", P)], True
    edges = conf.binning.edges
    if "edges" in P:
        want = np.array(P["edges"])
        if not np.array_equal(edges, want):
            v.append(viol("C15/create/custom-edges-changed", f"edges {edges.tolist()} != given {want.tolist()}"))
    else:
        n, zmin, zmax = P["num_bins"], P["zmin"], P["zmax"]
        if len(edges) != n + 1:
            v.append(viol(f"C15/create/num-bins/{P['method']}", f"{len(edges) - 1} bins instead of {n}"))
        elif np.any(np.diff(edges) <= 0):
            v.append(viol(f"C15/create/not-increasing/{P['method']}", f"edges {edges.tolist()}"))
        else:
            if edges[0] != zmin or edges[-1] != zmax:
                v.append(viol(f"C15/create/span/{P['method']}",
                              f"bins span [{edges[0]!r}, {edges[-1]!r}] instead of exactly "
                              f"[{zmin!r}, {zmax!r}] (method {P['method']})", P))
            want = ref_edges(P["method"], zmin, zmax, n, P.get("cosmology"))
            tol = 1e-6 if P["method"] == "comoving" else 1e-12
            if not np.allclose(edges, want, rtol=0, atol=tol):
                v.append(viol(f"C15/create/edges/{tag}",
                              f"edges {edges.tolist()} differ from reference {want.tolist()}", P))
    if str(conf.binning.closed) != P.get("closed", "right"):
        v.append(viol("C15/create/closed", "closed side not as requested"))
    for z in (0.05, 0.3, 0.9, 2.0):
        got = conf.scales.scales.get_angle_radian(z, conf.cosmology)
        want = ref_angles(P, z)
        for g, w, nm in zip(got, want, ("min", "max")):
            if not np.allclose(np.asarray(g, dtype=float), w, rtol=1e-12, atol=0):
                v.append(viol(f"C15/angle/{P.get('unit', 'kpc')}/{P.get('cosmology')}",
                              f"angle_{nm}(z={z}) = {np.asarray(g).tolist()} but r/D(z) = {np.asarray(w).tolist()}", P))
                break
    if conf.scales.rweight != P.get("rweight") or conf.scales.resolution != P.get("resolution"):
        v.append(viol("C15/create/rweight", "rweight/resolution not stored as given"))
    # equal parameters compare equal
    try:
        twin = yaw.Configuration.create(**realise(P))
        if not (conf == twin):
            v.append(viol("C15/eq/equal-params-unequal", "two configurations from equal parameters compare unequal"))
        if conf != twin:
            v.append(viol("C15/eq/ne-inconsistent", "!= true for equal configurations"))
    except Exception as e:
        v.append(viol(f"C15/eq/exception:{type(e).__name__}", f"== raised {yawx.exc_name(e)}"))
    # differing parameter -> unequal
    for name, change in (("closed", dict(closed="left" if P.get("closed", "right") == "right" else "right")),
                         ("rmax", dict(rmax=(np.asarray(P["rmax"]) * 2).tolist())),
                         ("rweight", dict(rweight=(P.get("rweight") or 0.0) + 1.0, resolution=P.get("resolution") or 10)),
                         ("resolution", dict(rweight=P.get("rweight") or 1.0, resolution=(P.get("resolution") or 10) + 1)
                          if P.get("rweight") else None),
                         ("unit", dict(unit="Mpc" if P.get("unit", "kpc") != "Mpc" else "kpc")),
                         ("cosmology", dict(cosmology="WMAP7") if P.get("cosmology") != "custom" else None),
                         ("zmax", dict(zmax=P["zmax"] * 1.5) if "zmax" in P else dict(edges=[0.1, 0.2, 0.5, 0.95]))):
        if change is None:
            continue
        try:
            other = yaw.Configuration.create(**realise(dict(P, **change)))
            if conf == other:
                v.append(viol(f"C15/eq/different-{name}-equal",
                              f"configurations differing in {name} compare equal"))
        except Exception as e:
            v.append(viol(f"C15/eq/exception:{type(e).__name__}", f"== raised {yawx.exc_name(e)}"))
            break
    nontrivial = P.get("method", "custom") != "linear" or P.get("cosmology") not in ("Planck15", None)
    return v, nontrivial


def run_invalid(case):
    import yaw

    try:
        conf = yaw.Configuration.create(**realise(case["params"]))
    except Exception:
        return [], True
    return [viol(f"C15/invalid-accepted/{case['name']}",
                 f"invalid parameters ({case['name']}) accepted: edges {conf.binning.edges.tolist()}",
                 case["params"])], True


def merged_params(base, mod):
    m = dict(base)
    if "edges" in mod:
        for k in ("zmin", "zmax", "num_bins", "method"):
            m.pop(k, None)
    for k, val in mod.items():
        m[k] = val
    if m.get("cosmology") == "None":
        m["cosmology"] = None
    return m


def run_modify(case):
    import yaw

    base, mod, names = case["base"], case["mod"], "+".join(case["names"])
    tag = f"{'custom-edges' if 'edges' in base else base['method']}/{base.get('cosmology')}"
    try:
        conf = yaw.Configuration.create(**realise(base))
    except Exception as e:
        return [viol(f"C15/create/exception:{type(e).__name__}/{tag}",
                     f"valid parameters rejected: {yawx.exc_name(e)}", base)], True
    before = describe(conf)
    import copy

    before_dict = copy.deepcopy(conf.to_dict()) if base.get("cosmology") not in ("custom", "curved") else None
    v = []
    # signature: binning-related parameter names only (they select the code path), others as "other"
    sigmod = "+".join(sorted({n if n in ("zmin", "zmax", "num_bins", "method", "edges", "closed", "cosmology")
                              else "other" for n in case["names"]}))
    rmod = realise(mod)
    if mod.get("cosmology") == "None":
        rmod["cosmology"] = None
    try:
        want = yaw.Configuration.create(**realise(merged_params(base, mod)))
    except Exception:
        # merged parameters are themselves invalid: modify must raise as well
        try:
            conf.modify(**rmod)
        except Exception:
            return [], False
        return [viol(f"C15/modify/invalid-accepted/{names}", f"modify({mod}) accepted invalid merged parameters")], True
    try:
        got = conf.modify(**rmod)
    except Exception as e:
        v.append(viol(f"C15/modify/exception:{type(e).__name__}/{sigmod}/{tag}",
                      f"modify({mod}) on a {tag} configuration raised {yawx.exc_name(e)}", case))
        got = None
    if got is not None:
        diff = same_meaning(describe(want), describe(got))
        if diff is not None:
            v.append(viol(f"C15/modify/differs-from-create:{diff}/{sigmod}/{tag}",
                          f"modify({mod}) on a {tag} configuration gives {diff} "
                          f"{describe(got)[diff]} but create(**merged) gives {describe(want)[diff]}", case))
        else:
            try:
                if not (got == want):
                    v.append(viol(f"C15/modify/not-equal-to-create/{sigmod}/{tag}", "modify result != create(**merged)"))
            except Exception as e:
                v.append(viol(f"C15/eq/exception:{type(e).__name__}", f"== raised {yawx.exc_name(e)}"))
    if got is not None and len(case["names"]) == 1:
        # a second, different modification of the same original starts from the original again
        other = dict(rmax=(np.asarray(base["rmax"]) * 3).tolist()) if "rmax" not in mod and "rmin" not in mod else dict(closed="left" if base.get("closed", "right") == "right" else "right")
        try:
            want2 = yaw.Configuration.create(**realise(merged_params(base, other)))
            got2 = conf.modify(**realise(other))
            diff2 = same_meaning(describe(want2), describe(got2))
            dicts_differ = before_dict is not None and got2.to_dict() != want2.to_dict()
            if diff2 is not None or not (got2 == want2) or dicts_differ:
                v.append(viol(f"C15/modify/second-modify-inherits-first/{sigmod}",
                              f"after modify({mod}) a second modify({other}) of the same original does not equal "
                              f"create(**merged): {diff2 or 'to_dict/== differ'}"))
        except Exception as e:
            v.append(viol(f"C15/modify/second/exception:{type(e).__name__}", f"second modify raised {yawx.exc_name(e)}"))
    after = describe(conf)
    if same_meaning(before, after, tol=0.0) is not None or (
            before_dict is not None and conf.to_dict() != before_dict):
        v.append(viol(f"C15/modify/mutates-original/{names}", f"modify({mod}) changed the original configuration"))
    changed = same_meaning(before, describe(want)) is not None
    return v, changed


def run_case(case):
    fn = dict(create=run_create, invalid=run_invalid, modify=run_modify)[case["part"]]
    viols, nontrivial = fn(case)
    res = dict(nontrivial=bool(nontrivial), key=case)
    if viols:
        uniq = {}
        for x in viols:
            uniq.setdefault(x["signature"], x)
        res.update(status="violation", violations=list(uniq.values()))
    return res
