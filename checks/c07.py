"""C07 - measurements are independent of what was cached before.

Engine E6 (explicit-state model checking over cache histories): breadth-first search in which
every transition is one real operation (tree build with some binning on a catalog or on a
single patch, auto-/cross-correlation with some configuration, role swap) executed on a
restored snapshot of the real cache directories; states are deduplicated on a canonical
digest of the directories; on every measurement transition the result must be bit-identical
to the same measurement on freshly created caches.
"""

from __future__ import annotations

import hashlib
import itertools
import os
import pickle
import shutil

import numpy as np

from vlib import runner, yawx

PROPERTY = "C07"
LEVEL = "model_checking"
FANOUT_CHUNK = 1
RULE = (
    "state = digest of the three cache directories (per patch: binning file bytes, per-tree (count, weight sum, "
    "sorted points) unpickled from trees.pkl, parsed meta.yml); transitions = {build_trees on the reference with "
    "binning in {B1 right, B1 left, B1 with an edge moved by 1 ulp, other edges same count, other count, unbinned} "
    "(plus a binning differing from B1 in the last edge only) (unforced, forced), the same on a single patch only (BinnedTrees.build), builds on the unknown and random "
    "catalogs, crosscorrelate / autocorrelate (also with count_rr=False) with configurations over these binnings and two scale sets, "
    "crosscorrelate with the roles of reference and unknown swapped}; BFS from the first operation given by the "
    "case to depth 3 (quick) / 4 (thorough) with digest deduplication; redshifts sit exactly on bin edges and one "
    "ulp next to them so that every binning difference changes counts. Oracle: result of each measurement "
    "transition == the same measurement on fresh caches. Non-trivial: a measurement whose source state holds "
    "trees of another binning or role for one of the catalogs it uses. One case = the BFS below one first operation. "
    "Optimised-interpreter part: five fixed histories replayed with PYTHONOPTIMIZE=1 (assert statements stripped). "
    "Process part: every ordered pair of measurements {cross, auto} x {B1r, B2} x scales {s1, s3 (reaches across patches), sk (kpc)} in one fresh interpreter vs the second alone in another fresh interpreter. "
    "Handles part: every history of <= depth operations {build_trees(B1r|B2|unbinned), crosscorrelate(B1r|B2)} x {handle 1, "
    "handle 2}, two Catalog objects opened once on the same directories and kept alive; each history runs from pristine "
    "directories (stateless), the oracle is applied to every measurement that ends a history."
)
ASSUMPTIONS = [
    "merging states with equal digest is sound because every operation reads nothing but these files and its arguments",
    "BFS part: catalog handles are re-opened from the cache directory for every transition (the reopen operation of the "
    "statement is thereby part of every step); long-lived handles are the subject of the handles part",
]

E = 0.2
BINNINGS = {
    "B1r": ([0.1, E, 0.4], "right"), "B1l": ([0.1, E, 0.4], "left"),
    "B1e": ([0.1, float(np.nextafter(E, 1.0)), 0.4], "right"),
    "B2": ([0.1, 0.3, 0.4], "right"), "B3": ([0.1, E, 0.3, 0.4], "right"), "U": (None, "right"),
    "B1z": ([0.1, E, 0.32], "right"),  # differs from B1r in the last edge only (objects at 0.35 and 0.4 fall out)
}
SCALES = {"s1": ([0.3], [1.1]), "s2": ([0.2, 0.9], [0.8, 2.6]),
          # s3 reaches across the two patches (cross-patch pairs exist only here), sk is a physical scale (the angle
          # depends on the bin centres)
          "s3": ([1.0], [4.5]), "sk": ([500.0], [6000.0], "kpc")}


def all_ops(tier):
    ops = []
    for b in BINNINGS:
        ops.append(("build", "R", b, False))
    ops.append(("build", "R", "B1r", True))
    for b in ("B1r", "B2", "U"):
        ops.append(("build1", "R", b, False))
    for b in ("U", "B1r"):
        ops.append(("build", "U", b, False))
    ops.append(("build", "RR", "B1l", False))
    ops.append(("build1", "RR", "B2", False))
    for b in ("B1r", "B1l", "B1e", "B2", "B1z"):
        ops.append(("cross", b, "s1"))
    ops.append(("cross", "B1r", "s2"))
    ops.append(("auto", "B1r", "s1"))
    ops.append(("auto", "B1l", "s1"))
    ops.append(("auto-norr", "B1r", "s1"))  # autocorrelate(count_rr=False): DR still needs the random trees
    ops.append(("swapped", "B1r", "s1"))
    if tier == "thorough":
        ops += [("cross", "B3", "s1"), ("auto", "B2", "s2"), ("build", "RR", "B3", False), ("build1", "U", "B1l", False)]
    return [list(o) for o in ops]


def handle_ops():
    """Operations through one of two catalog handles that stay alive for the whole history."""
    ops = [["hbuild", h, b] for h in (1, 2) for b in ("B1r", "B2", "U")]
    ops += [["hcross", h, b] for h in (1, 2) for b in ("B1r", "B2")]
    return ops


def cases(tier, seed):
    ops = all_ops(tier)
    depth = 3 if tier == "quick" else 4
    out = [dict(first=o, depth=depth, tier=tier, seed=seed) for o in ops]
    # long-lived handles: every history of <= depth operations through two handles on the same directories
    out += [dict(part="handles", first=o, depth=depth, tier=tier, seed=seed) for o in handle_ops()]
    # the same property under the optimised interpreter (python -O / PYTHONOPTIMIZE strips assert statements):
    # a few fixed histories replayed in a subprocess
    for hist in ([["build", "R", "B2", False], ["cross", "B1r", "s1"]],
                 [["cross", "B1l", "s1"], ["cross", "B1r", "s1"]],
                 [["build", "U", "B1r", False], ["cross", "B1r", "s1"]],
                 [["auto", "B1r", "s1"], ["swapped", "B1r", "s1"]],
                 [["build", "R", "B3", False], ["build", "R", "B1e", False], ["auto", "B1r", "s1"]]):
        out.append(dict(part="pyopt", replay_history=hist, tier=tier, seed=seed))
    # two measurements in one fresh interpreter (process-lifetime state): every ordered pair over binnings x scale sets
    meas = [[k, b, s_] for k in ("cross", "auto") for b in ("B1r", "B2") for s_ in ("s1", "s3", "sk")]
    for first, second in itertools.product(meas, repeat=2):
        if first == second or (tier == "quick" and first[0] != second[0]):
            continue
        out.append(dict(part="process", replay_history=[first, second], tier=tier, seed=seed))
    return out


def setup():
    yawx.sequential()
    import warnings

    warnings.simplefilter("ignore")
    np.seterr(all="ignore")


# ---------------------------------------------------------------- fixture ---


def make_fixture(root):
    """Three catalogs with redshifts on / next to the edges used by the binnings."""
    zs = [0.15, E, float(np.nextafter(E, 1.0)), 0.25, 0.3, 0.35, float(np.nextafter(E, 0.0)), 0.12]
    # the random catalog has redshifts exactly on the outer edges 0.1 / 0.4 of the binnings but none on (or next to)
    # an inner edge: only the closed side decides about its first and last bin
    zs_rr = [0.15, 0.1, 0.4, 0.25, 0.3, 0.35, 0.4, 0.1]
    cats = {}
    k = 0
    for name, n_per, has_z in (("R", 6, True), ("U", 4, True), ("RR", 5, True)):
        ra, dec, z, w, pid = [], [], [], [], []
        for p in range(2):
            for t in range(n_per):
                ra.append(20.0 + 5.0 * p + 0.37 * t + 0.05 * k)
                dec.append(0.21 * (t % 3) + 0.02 * k)
                z.append((zs_rr if name == "RR" else zs)[(t + 3 * p + k) % len(zs)])
                w.append(1.0 + ((7 * t + 3 * p + k) % 11))
                pid.append(p)
        k += 1
        cats[name] = yawx.make_catalog(os.path.join(root, name), ra, dec, z=z, w=w, pid=pid)
    return cats


def tree_digest(patch_dir):
    h = hashlib.sha1()
    for f in ("binning", "meta.yml"):
        p = os.path.join(patch_dir, f)
        h.update(f.encode() + (open(p, "rb").read() if os.path.exists(p) else b"<absent>"))
    p = os.path.join(patch_dir, "trees.pkl")
    if os.path.exists(p):
        try:
            with open(p, "rb") as fh:
                trees = pickle.load(fh)
            trees = trees if isinstance(trees, tuple) else (trees,)
            for t in trees:
                pts = np.array(t.data)
                pts = pts[np.lexsort(pts.T[::-1])] if len(pts) else pts
                h.update(repr((t.num_records, t.sum_weights)).encode() + pts.tobytes())
                h.update(b"w" if t.weights is not None else b"-")
        except Exception as e:  # unreadable trees are a state of their own
            h.update(b"unreadable" + type(e).__name__.encode())
    else:
        h.update(b"<no trees>")
    return h.hexdigest()[:12]


def state_of(live):
    parts = []
    for name in ("R", "U", "RR"):
        for p in (0, 1):
            parts.append(tree_digest(os.path.join(live, name, f"patch_{p}")))
    return "-".join(parts)


def cached_binnings(live):
    """For the non-triviality rule: name of the binning stored per catalog/patch (or None)."""
    out = {}
    for name in ("R", "U", "RR"):
        for p in (0, 1):
            f = os.path.join(live, name, f"patch_{p}", "binning")
            out[(name, p)] = open(f, "rb").read() if os.path.exists(f) else None
    return out


def config_for(b, s):
    import yaw

    edges, closed = BINNINGS[b]
    rmin, rmax, *unit = SCALES[s]
    return yaw.Configuration.create(rmin=rmin, rmax=rmax, unit=unit[0] if unit else "deg", edges=edges, closed=closed)


def obs(cfs):
    h = hashlib.sha1()
    for cf in cfs:
        for kind in ("dd", "dr", "rd", "rr"):
            nc = getattr(cf, kind)
            if nc is None:
                h.update(b"none")
                continue
            for a in (nc.counts.counts, nc.sum_weights.sum_weights1, nc.sum_weights.sum_weights2):
                h.update(np.ascontiguousarray(a).tobytes())
    return h.hexdigest()[:16]


def apply(op, live):
    """Run one operation on the live directories; returns an observation digest for measurements."""
    import yaw
    from yaw import Binning, Catalog
    from yaw.catalog.trees import BinnedTrees

    cats = {n: Catalog(os.path.join(live, n)) for n in ("R", "U", "RR")}
    kind = op[0]
    if kind == "build":
        _, name, b, force = op
        edges, closed = BINNINGS[b]
        cats[name].build_trees(edges, closed=closed, force=force)
        return None
    if kind == "build1":
        _, name, b, force = op
        edges, closed = BINNINGS[b]
        BinnedTrees.build(cats[name][0], None if edges is None else Binning(edges, closed=closed), force=force)
        return None
    _, b, s = op
    conf = config_for(b, s)
    if kind == "cross":
        return obs(yaw.crosscorrelate(conf, cats["R"], cats["U"], unk_rand=cats["RR"]))
    if kind == "auto":
        return obs(yaw.autocorrelate(conf, cats["R"], cats["RR"]))
    if kind == "auto-norr":
        return obs(yaw.autocorrelate(conf, cats["R"], cats["RR"], count_rr=False))
    if kind == "swapped":
        return obs(yaw.crosscorrelate(conf, cats["U"], cats["R"], ref_rand=cats["RR"]))
    raise ValueError(op)


_live_counter = [0]


def restore(snap, live_root):
    """Copy a snapshot to a directory that was never used before and return it. Reusing one path for different
    states would go behind the library's back: a (legitimate) in-process cache keyed by path could still hold
    the previous state, which no sequence of library operations can produce."""
    _live_counter[0] += 1
    new = os.path.join(live_root, f"s{_live_counter[0]}")
    shutil.copytree(snap, new)
    return new


def run_handles(case):
    """Stateless enumeration: live handles cannot be snapshotted, every history runs from pristine directories."""
    import yaw
    from yaw import Catalog

    root = runner.fresh_dir("c07h")
    pristine = os.path.join(root, "pristine")
    os.makedirs(pristine)
    make_fixture(pristine)
    work = os.path.join(root, "work")
    os.makedirs(work)
    ops = handle_ops()
    fresh, viols = {}, []
    counters = dict(states=0, transitions=0, measurements=0, nontrivial_measurements=0, executions=0)

    def measure(cats, b):
        return obs(yaw.crosscorrelate(config_for(b, "s1"), cats["R"], cats["U"], unk_rand=cats["RR"]))

    def fresh_result(b):
        if b not in fresh:
            d = restore(pristine, work)
            fresh[b] = measure({n: Catalog(os.path.join(d, n)) for n in ("R", "U", "RR")}, b)
            shutil.rmtree(d, ignore_errors=True)
        return fresh[b]

    def run_history(hist):
        """Executes the history; the oracle is applied to its last operation (prefixes are histories of their own)."""
        d = restore(pristine, work)
        handles = {h: {n: Catalog(os.path.join(d, n)) for n in ("R", "U", "RR")} for h in (1, 2)}
        counters["executions"] += 1
        try:
            got = None
            for kind, h, b in hist:
                counters["transitions"] += 1
                if kind == "hbuild":
                    edges, closed = BINNINGS[b]
                    handles[h]["R"].build_trees(edges, closed=closed)
                    got = None
                else:
                    got = measure(handles[h], b)
        except Exception as e:
            viols.append(dict(signature=f"C07/handles/exception:{type(e).__name__}",
                              what=f"history {hist} through long-lived handles raised {yawx.exc_name(e)}",
                              replay_case=dict(part="handles", replay_history=hist, tier=case["tier"], seed=case["seed"])))
            return
        finally:
            shutil.rmtree(d, ignore_errors=True)
        if got is not None:
            counters["measurements"] += 1
            last = hist[-1]
            others = {(k, b) for k, h, b in hist[:-1]} - {("hbuild", last[2]), ("hcross", last[2])}
            counters["nontrivial_measurements"] += int(bool(others))
            if got != fresh_result(last[2]):
                viols.append(dict(
                    signature=f"C07/handles/hcross:{last[2]}/differs-from-fresh",
                    what=f"crosscorrelate with binning {last[2]} through handle {last[1]} after the history {hist[:-1]} "
                         f"(two live handles on the same cache directories) differs from the measurement on fresh caches",
                    replay_case=dict(part="handles", replay_history=hist, tier=case["tier"], seed=case["seed"])))

    if "replay_history" in case:
        run_history([list(o) for o in case["replay_history"]])
    else:
        def rec(hist):
            if hist[-1][0] == "hcross":
                run_history(hist)
            if len(hist) < case["depth"]:
                for op in ops:
                    rec(hist + [op])
        rec([case["first"]])
    counters["states"] = counters["executions"]
    res = dict(nontrivial=counters["nontrivial_measurements"] > 0, key=case, counters=counters,
               sample=dict(first=case.get("first"), histories=counters["executions"]))
    if viols:
        uniq = {}
        for v in viols:
            uniq.setdefault(v["signature"], v)
        res.update(status="violation", violations=list(uniq.values())[:4])
    return res


def observe_history(history):
    """Fresh fixture, the operations of the history one after the other in this process; observation of the last one."""
    root = runner.fresh_dir("c07o")
    make_fixture(root)
    last = None
    for op in history:
        last = apply(list(op), root)
    return last


def run_process(case):
    """Two measurements in one fresh interpreter vs the second one alone in another fresh interpreter."""
    import json
    import subprocess
    import sys

    here = os.path.dirname(os.path.dirname(os.path.abspath(__file__)))
    code = ("import json, os, sys; sys.path.insert(0, %r); sys.path.insert(0, os.path.join(os.environ.get('VERIF_REPO', '/repo'), 'src'));"
            "from checks import c07; c07.setup(); print('RESULT ' + json.dumps(c07.observe_history(json.loads(sys.argv[1]))))") % here

    def run(history):
        p = subprocess.run([sys.executable, "-c", code, json.dumps(history)], capture_output=True, text=True)
        lines = [l for l in p.stdout.splitlines() if l.startswith("RESULT ")]
        return json.loads(lines[-1][7:]) if lines else "FAILED " + (p.stderr.strip().splitlines() or ["?"])[-1][:200]

    hist = case["replay_history"]
    got, want = run(hist), run(hist[-1:])
    res = dict(nontrivial=True, key=case, counters=dict(executions=2, states=2, transitions=len(hist) + 1,
                                                      measurements=2, nontrivial_measurements=1))
    if got != want:
        op = hist[-1]
        res.update(status="violation", violations=[dict(
            signature=f"C07/one-process/{op[0]}:{op[1]}:{op[2]}/differs-from-fresh-process/after:{hist[0][1]}:{hist[0][2]}",
            what=f"{op} after {hist[:-1]} in the same interpreter differs from the same measurement made alone in a fresh "
                 f"interpreter on fresh caches ({str(got)[:60]} vs {str(want)[:60]})")])
    return res


def run_pyopt(case):
    import json
    import subprocess
    import sys

    here = os.path.dirname(os.path.dirname(os.path.abspath(__file__)))
    inner = dict(replay_history=case["replay_history"], tier=case["tier"], seed=case["seed"])
    code = ("import json, os, sys; sys.path.insert(0, %r); sys.path.insert(0, os.path.join(os.environ.get('VERIF_REPO', '/repo'), 'src'));"
            "from checks import c07; c07.setup(); r = c07.run_case(json.loads(sys.argv[1]));"
            "print('RESULT ' + json.dumps(dict(status=r.get('status', 'ok'), violations=[dict(signature=v['signature'], what=v['what'])"
            " for v in r.get('violations', [])], optimised=not __debug__)))") % here
    env = dict(os.environ)
    if case["part"] == "pyopt":
        env["PYTHONOPTIMIZE"] = "1"
    else:
        env.pop("PYTHONOPTIMIZE", None)
    p = subprocess.run([sys.executable, "-c", code, json.dumps(inner)], capture_output=True, text=True, env=env)
    lines = [l for l in p.stdout.splitlines() if l.startswith("RESULT ")]
    if not lines:
        raise RuntimeError(f"optimised-interpreter run failed: {p.stderr[-1500:]}")
    rep = json.loads(lines[-1][7:])
    if rep["optimised"] != (case["part"] == "pyopt"):
        raise RuntimeError("subprocess did not run in the requested interpreter mode")
    res = dict(nontrivial=True, key=case, counters=dict(executions=1, states=1, transitions=len(case["replay_history"]),
                                                      measurements=1, nontrivial_measurements=1))
    if rep["violations"]:
        res.update(status="violation", violations=[dict(
            signature=("C07/python-O/" if case["part"] == "pyopt" else "C07/one-process/") + v["signature"].split("/", 1)[1],
            what=("with assert statements stripped (python -O / PYTHONOPTIMIZE=1): " if case["part"] == "pyopt" else
                  "two measurements in one fresh interpreter: ") + v["what"]) for v in rep["violations"][:2]])
    return res


def run_case(case):
    if case.get("part") == "handles":
        return run_handles(case)
    if case.get("part") == "pyopt":
        return run_pyopt(case)
    if case.get("part") == "process":
        return run_process(case)
    ops = all_ops(case["tier"])
    root = runner.fresh_dir("c07")
    live = os.path.join(root, "live")
    os.makedirs(live)
    make_fixture(live)
    snaps = os.path.join(root, "snaps")
    os.makedirs(snaps)
    init = state_of(live)
    shutil.copytree(live, os.path.join(snaps, init))
    fresh = {}
    viols = []
    counters = dict(states=0, transitions=0, measurements=0, nontrivial_measurements=0, executions=0)

    work = os.path.join(root, "work")
    os.makedirs(work)
    current = [live]

    def fresh_result(op):
        key = tuple(op)
        if key not in fresh:
            d = restore(os.path.join(snaps, init), work)
            try:
                fresh[key] = apply(op, d)
            except Exception as e:  # the measurement fails on fresh caches: reported where it is used
                fresh[key] = f"EXC {yawx.exc_name(e)}"
            shutil.rmtree(d, ignore_errors=True)
        return fresh[key]

    def step(state, op, history):
        if current[0] != live:
            shutil.rmtree(current[0], ignore_errors=True)
        live_ = restore(os.path.join(snaps, state), work)
        current[0] = live_
        return _step(live_, op, history)

    def _step(live, op, history):
        before = cached_binnings(live)
        try:
            got = apply(op, live)
        except Exception as e:
            viols.append(dict(signature=f"C07/{op[0]}/exception:{type(e).__name__}",
                              what=f"operation {op} raised {yawx.exc_name(e)} after history {history}",
                              detail=dict(history=history, op=op),
                              replay_case=dict(replay_history=history + [op], tier=case["tier"], seed=case["seed"])))
            return None
        counters["transitions"] += 1
        counters["executions"] += 1
        if got is not None:
            counters["measurements"] += 1
            want = fresh_result(op)
            edges, closed = BINNINGS[op[1]]
            byte = (1 if closed == "left" else 0).to_bytes(1, "big") + np.asarray(edges, dtype=float).tobytes()
            used = ["R", "U", "RR"] if not op[0].startswith("auto") else ["R", "RR"]
            stale = any(before[(n, p)] is not None and before[(n, p)] != (byte if n != ("U" if op[0] != "swapped" else "R") else b"\\x01")
                        for n in used for p in (0, 1))
            counters["nontrivial_measurements"] += int(stale)
            if isinstance(want, str) and want.startswith("EXC "):
                viols.append(dict(signature=f"C07/{op[0]}:{op[1]}/raises-on-fresh-caches",
                                  what=f"{op[0]} with binning {op[1]} raises on freshly created caches ({want[4:]}) but not "
                                       f"after the history {history}",
                                  replay_case=dict(replay_history=history + [op], tier=case["tier"], seed=case["seed"])))
            elif got != want:
                names = {}
                for bname, (be, bc) in BINNINGS.items():
                    key = b"\x01" if be is None else (1 if bc == "left" else 0).to_bytes(1, "big") + np.asarray(be, dtype=float).tobytes()
                    names[key] = bname
                cached = sorted({names.get(before[(n, p)], "?") for n in used for p in (0, 1) if before[(n, p)] is not None})
                viols.append(dict(
                    signature=f"C07/{op[0]}:{op[1]}/differs-from-fresh/cached:{'+'.join(cached) or 'nothing'}",
                    what=f"{op[0]} with binning {op[1]} ({BINNINGS[op[1]]}) after the history {history} differs from the "
                         f"same measurement on fresh caches (trees cached before: {cached})",
                    detail=dict(history=history, op=op),
                    replay_case=dict(replay_history=history + [op], tier=case["tier"], seed=case["seed"])))
        new = state_of(live)
        return new

    if "replay_history" in case:  # one fixed history, no search (replay files)
        state = init
        hist = []
        for op in case["replay_history"]:
            state = step(state, op, hist)
            if state is None:
                break
            if not os.path.exists(os.path.join(snaps, state)):
                shutil.copytree(current[0], os.path.join(snaps, state))
            hist = hist + [op]
        res = dict(nontrivial=True, key=case, counters=counters)
        if viols:
            res.update(status="violation", violations=viols[:3])
        return res
    # breadth-first search below the first operation
    seen = {init}
    first = case["first"]
    s1 = step(init, first, [])
    frontier = []
    if s1 is not None:
        if s1 not in seen:
            seen.add(s1)
            shutil.copytree(current[0], os.path.join(snaps, s1))
        frontier = [(s1, [first])]
    for depth in range(1, case["depth"]):
        nxt = []
        for state, hist in frontier:
            for op in ops:
                new = step(state, op, hist)
                if new is None:
                    continue
                if new not in seen:
                    seen.add(new)
                    shutil.copytree(current[0], os.path.join(snaps, new))
                    nxt.append((new, hist + [op]))
        frontier = nxt
        if not frontier:
            break
    counters["states"] = len(seen)
    res = dict(nontrivial=counters["nontrivial_measurements"] > 0, key=case, counters=counters,
               outcomes=sorted(seen)[:50], sample=dict(first=first, depth=case["depth"], states=len(seen),
                                                       transitions=counters["transitions"]))
    if viols:
        uniq = {}
        for v in viols:
            uniq.setdefault(v["signature"], v)
        res.update(status="violation", violations=list(uniq.values())[:6])
    return res
