"""C17 - container algebra and indexing.

Engine E1: every container type x bins x patches x auto/cross x member subset,
and on each container every operation of the documented algebra with every
scalar / index / slice of a small alphabet, compared with plain numpy on
snapshots of the container's arrays.
"""

from __future__ import annotations

import itertools

import numpy as np

from vlib import containers as C
from vlib import ref, runner, yawx

PROPERTY = "C17"
LEVEL = "exploration"
RULE = (
    "containers {PatchedCounts, PatchedSumWeights, NormalisedCounts, CorrFunc (7 member subsets), "
    "CorrData, HistData, RedshiftData} x bins {1,2,3} x patches {2,3,4} x auto/cross with "
    "fingerprint contents; on each: +, sum(), the accumulation idiom total=0; total+=c (twice, operands unchanged), -, * for scalars {0,1,2,-1,0.5,float64(3)} and rejected "
    "{True,'2',None,array}, ==/!= against copy and 6 perturbations (data containers also with the same NaN jackknife sample on both sides, count containers with NaN counts from x * nan), is_compatible() with and without require on copies and on containers with other edges / bin count / patch count, incompatible operands (other binning, binning whose last edge differs by 2e-6, patch count, one patch, one sample), "
    ".bins[e]/.patches[e] for every int in [-n,n-1], out-of-range ints, every slice with "
    "start,stop in {None,-n..n}, stepped slices (step 2,3; omitted bins merge into the preceding selected bin), iteration, loops over a retained indexer after abandoned loops; commuting with sample_patch_sum/sample. "
    "Non-trivial: container with >= 2 bins or an auto container (every case has >= 2 patches); "
    "distinct: (type, B, N, auto, members)."
)
ASSUMPTIONS = [
    "an empty selection (e.g. bins[2:1]) may either raise or give an empty container: a binning "
    "without bins is not representable, the statement does not define it",
    "CorrFunc + CorrFunc with different member sets is not constrained by the statement",
    "numpy integer indices are exercised for .bins: the data containers accept them explicitly (must work), the "
    "count containers document int|slice (may refuse with an error, must not answer wrongly)",
]

SCALARS = [1, 2, -1, 0.5, 0, np.float64(3.0)]
BAD_SCALARS = [True, "2", None, [1.0, 2.0]]


def cases(tier, seed):
    out = []
    Bs, Ns = (1, 2, 3), (2, 3, 4)
    for B, N, auto in itertools.product(Bs, Ns, (False, True)):
        for T in ("PatchedCounts", "PatchedSumWeights", "NormalisedCounts"):
            out.append(dict(T=T, B=B, N=N, auto=auto))
        for members in C.MEMBER_SUBSETS:
            out.append(dict(T="CorrFunc", B=B, N=N, auto=auto, members=list(members)))
    for B, N in itertools.product(Bs, Ns):
        for T in ("CorrData", "HistData", "RedshiftData"):
            out.append(dict(T=T, B=B, N=N, auto=False))
    for c in list(out):
        if tier == "thorough" or c["T"] in ("CorrData", "HistData", "RedshiftData") or (c["T"] == "CorrFunc" and c["B"] == 2):
            out.append(dict(c, closed="left", kind="eq"))
    out.sort(key=lambda c: (c["B"], c["N"]))
    return out


def setup():
    yawx.sequential()


def build(case, **over):
    kw = dict(kind=case.get("kind", "uneq"), closed=case.get("closed", "right"))
    kw.update(over)
    T, B, N, auto = case["T"], case["B"], case["N"], case["auto"]
    B = kw.pop("B", B)
    N = kw.pop("N", N)
    if T == "PatchedCounts":
        return C.make_counts(B, N, auto, **kw)
    if T == "PatchedSumWeights":
        kw.pop("salt", None)
        return C.make_sumw(B, N, auto, **kw)
    if T == "NormalisedCounts":
        return C.make_norm(B, N, auto, **kw)
    if T == "CorrFunc":
        return C.make_corrfunc(B, N, auto, case["members"], **kw)
    return C.make_corrdata(T, B, N, **kw)


class Recorder:
    def __init__(self, case):
        self.case = case
        self.viols = []
        self.nops = 0

    def bad(self, op, kind, what, detail=None):
        T = self.case["T"]
        self.viols.append(dict(signature=f"C17/{T}/{op}/{kind}", what=f"{T} {op}: {what}",
                               detail=detail))

    def expect_value(self, op, fn, expected, tol=0.0, what=""):
        self.nops += 1
        try:
            got = fn()
        except Exception as e:
            self.bad(op, f"exception:{type(e).__name__}", f"raised {yawx.exc_name(e)} {what}")
            return None
        try:
            s = C.snap(got)
        except Exception as e:
            self.bad(op, "wrong-type", f"returned {type(got).__name__} {what} ({e})")
            return None
        if not C.snap_equal(s, expected, tol):
            self.bad(op, "wrong-value", f"result differs from the numpy reference {what}")
        return got

    def expect_raise(self, op, fn, what=""):
        self.nops += 1
        try:
            got = fn()
        except Exception:
            return
        self.bad(op, "no-error", f"accepted {what}, returned {type(got).__name__}")

    def expect_true(self, op, fn, what=""):
        self.nops += 1
        try:
            ok = bool(fn())
        except Exception as e:
            self.bad(op, f"exception:{type(e).__name__}", f"raised {yawx.exc_name(e)} {what}")
            return
        if not ok:
            self.bad(op, "false", what)


def ref_patch_sum(s):
    """Reference for sample_patch_sum() on a snapshot -> (data, samples)."""
    T = s["T"]
    if T == "PatchedCounts":
        return ref.ref_jackknife_sum(s["counts"])
    if T == "PatchedSumWeights":
        return ref.ref_jackknife_sum(ref.weight_product(s["sw1"], s["sw2"], s["auto"]))
    if T == "NormalisedCounts":
        d1, s1 = ref_patch_sum(s["counts"])
        d2, s2 = ref_patch_sum(s["sum_weights"])
        with np.errstate(all="ignore"):
            return d1 / d2, s1 / s2
    raise TypeError(T)


def run_case(case):
    T, B, N = case["T"], case["B"], case["N"]
    rec = Recorder(case)
    x = build(case)
    sx = C.snap(x)
    is_data = T in ("CorrData", "HistData", "RedshiftData")
    # Landy-Szalay without DR is not defined by the statement: sampling may raise
    members = case.get("members") or []
    sample_defined = not ("rr" in members and "dr" not in members)
    has_add = T != "PatchedSumWeights"
    has_mul = T in ("PatchedCounts", "NormalisedCounts", "CorrFunc")

    # ---- equality: reflexive, structural
    rec.expect_true("eq", lambda: x == x, "x == x is false")
    y = C.clone(x)
    rec.expect_true("eq", lambda: x == y, "x == deepcopy(x) is false")
    rec.expect_true("eq", lambda: not (x != y), "x != deepcopy(x) is true")
    rec.expect_true("eq", lambda: x == build(case), "equal contents built twice compare unequal")
    perturbed = []
    if T != "PatchedSumWeights":
        perturbed.append(("salt", build(case, salt=1)))
    else:
        perturbed.append(("sumw", build(case, off1=3)))
    perturbed.append(("closed", build(case, closed="left" if case.get("closed", "right") == "right" else "right")))
    perturbed.append(("edges", build(case, kind="eq" if case.get("kind", "uneq") == "uneq" else "uneq")))
    perturbed.append(("edges-slightly", build(case, kind=case.get("kind", "uneq") + "~")))
    if B < 3:
        perturbed.append(("more-bins", build(case, B=B + 1)))
    if N < 4:
        perturbed.append(("more-patches", build(case, N=N + 1)))
    if not is_data:
        perturbed.append(("one-patch", build(case, N=1)))  # numpy would broadcast it silently
    else:
        perturbed.append(("one-sample", build(case, N=1)))  # a single jackknife sample would broadcast as well
    if T in ("NormalisedCounts",):
        perturbed.append(("sumw", build(case, off1=3)))
    if T in ("PatchedCounts", "PatchedSumWeights", "NormalisedCounts"):
        perturbed.append(("auto", build(dict(case, auto=not case["auto"]))))
    for name, p in perturbed:
        rec.expect_true("eq", lambda p=p: not (x == p) and (x != p),
                        f"container compares equal to one with different {name}")
    rec.expect_true("eq", lambda: not (x == 1) and not (x == None), "equal to a non-container")  # noqa: E711
    # the non-raising form of the compatibility check agrees with what the operators demand
    rec.expect_true("compatible", lambda: x.is_compatible(y) is True and x.is_compatible(y, require=True) is True,
                    "is_compatible() is false for a copy")
    for name, p in perturbed:
        if name not in ("more-bins", "more-patches", "one-patch", "edges"):
            continue

        def refused(p=p):
            if x.is_compatible(p) is not False:
                return False
            try:
                x.is_compatible(p, require=True)
            except (ValueError, TypeError):
                return True
            return False
        rec.expect_true("compatible", refused, f"is_compatible() accepts a container with different {name}")
    if is_data and N >= 2:
        # an undefined (NaN) jackknife sample, e.g. a bin whose pairs all come from one patch: still equal to itself
        def nan_sample_equal():
            a, b = C.clone(x), C.clone(x)
            for obj in (a, b):
                obj.samples[0, -1] = np.nan
            return (a == a) and (a == b) and not (a != b) and (a == C.clone(a)) and not (a == x)
        rec.expect_true("eq", nan_sample_equal, "containers with the same NaN jackknife sample compare unequal")
    if not is_data:
        # undefined counts (x * nan; also what 0 * inf leaves behind): reflexive and structural all the same
        def nan_counts_equal():
            with np.errstate(all="ignore"):
                if has_mul:
                    a, b = x * float("nan"), x * float("nan")
                else:
                    a, b = C.clone(x), C.clone(x)
                    for obj in (a, b):
                        obj.sum_weights1[0, 0] = np.nan
            return (a == a) and (a == b) and not (a != b) and (a == C.clone(a)) and not (a == x) and (a != x)
        rec.expect_true("eq-nan", nan_counts_equal, "a container with undefined (NaN) counts does not compare equal to itself / its copy")
    if T == "CorrFunc":  # structural over the optional members, in both directions
        for other_members in C.MEMBER_SUBSETS:
            if set(other_members) == set(members):
                continue
            o = build(dict(case, members=list(other_members)))
            rec.expect_true("eq-members", lambda o=o: not (x == o) and not (o == x) and (x != o) and (o != x),
                            f"CorrFunc with members {members} compares equal to one with members {list(other_members)}")
            # adding them would have to drop or invent pair counts: rejected in both orders
            rec.expect_raise("add-incompatible", lambda o=o: x + o, f"CorrFunc {members} + CorrFunc {list(other_members)}")
            rec.expect_raise("add-incompatible", lambda o=o: o + x, f"CorrFunc {list(other_members)} + CorrFunc {members}")
    if has_add or is_data:
        # results of + keep binning and closed side, so that they can be combined again
        pass

    # ---- addition / subtraction
    if has_add:
        z = build(case, salt=2) if T != "CorrData" else build(case, salt=2)
        sz = C.snap(z)
        got_sum = rec.expect_value("add", lambda: x + z, C.added(sx, sz), what="(x + z)")
        if got_sum is not None:
            rec.expect_value("add-chain", lambda: (x + z) + x, C.added(C.added(sx, sz), sx), what="((x + z) + x)")
        if T in ("PatchedCounts", "NormalisedCounts"):  # documented to work with sum()
            rec.expect_value("sum", lambda: sum([x, z]), C.added(sx, sz), what="sum([x, z])")
            rec.expect_value("sum", lambda: sum([x, z, x]), C.added(C.added(sx, sz), sx),
                             what="sum([x, z, x])")
        if T in ("PatchedCounts", "NormalisedCounts"):
            # the accumulation idiom behind sum(): total = 0; total += c for every c - the operands stay what they were
            def accumulate():
                total = 0
                for c in (x, z, x):
                    total += c
                return total
            rec.expect_value("sum", accumulate, C.added(C.added(sx, sz), sx), what="(0 += x += z += x)")
            rec.expect_value("sum", accumulate, C.added(C.added(sx, sz), sx), what="(0 += x += z += x) repeated")
        if is_data:
            rec.expect_value("sub", lambda: x - z, C.added(sx, sz, -1.0), what="(x - z)")
        # operands must not be mutated
        rec.expect_true("add", lambda: C.snap_equal(C.snap(x), sx) and C.snap_equal(C.snap(z), sz),
                        "an operand was mutated by +")
        for name, p in perturbed:
            if name in ("salt", "auto", "sumw"):
                continue
            if is_data and name == "one-patch":
                continue
            rec.expect_raise("add-incompatible", lambda p=p: x + p, f"operand with different {name}")
        rec.expect_raise("add-incompatible", lambda: x + 1, "x + 1")
        rec.expect_raise("add-incompatible", lambda: x + None, "x + None")
        other_T = "PatchedCounts" if T != "PatchedCounts" else "NormalisedCounts"
        other = build(dict(case, T=other_T, members=["dr"]))
        rec.expect_raise("add-incompatible", lambda: x + other, f"x + {other_T}")
        if T == "NormalisedCounts":
            rec.expect_raise("add-incompatible", lambda: x + build(case, off1=3),
                             "operand with different sum of weights")

    # ---- scalar multiplication
    if has_mul:
        for s in SCALARS:
            got = rec.expect_value("mul", lambda s=s: x * s, C.scaled(sx, s), what=f"(x * {s!r})")
            if got is not None and s != 0 and T in ("NormalisedCounts", "CorrFunc") and sample_defined:
                def same_sample(got=got):
                    a = x.sample() if T == "CorrFunc" else x.sample_patch_sum()
                    b = got.sample() if T == "CorrFunc" else got.sample_patch_sum()
                    f = 1.0 if T == "CorrFunc" else s
                    return (np.allclose(a.data * f, b.data, rtol=1e-12, equal_nan=True)
                            and np.allclose(a.samples * f, b.samples, rtol=1e-12, equal_nan=True))
                rec.expect_true("mul-sample", same_sample,
                                f"sampled estimate changed under scaling by {s!r}")
        rec.expect_true("mul", lambda: C.snap_equal(C.snap(x), sx), "operand mutated by *")
        for s in BAD_SCALARS:
            rec.expect_raise("mul-rejected", lambda s=s: x * s, f"x * {s!r}")

    # ---- bins indexing
    def index_exprs(n):
        ints = list(range(-n, n))
        oor = [n, n + 1, -n - 1]
        ends = [None] + list(range(-n, n + 1))
        slices = [slice(a, b, st) for a in ends for b in ends for st in (None, 1)]
        # non-contiguous selections (documented: omitted bins are merged into the preceding selected bin)
        slices += [slice(a, b, st) for st in (2, 3) for a in (None, 0, 1, 2) for b in (None, n, n - 1)]
        return ints, oor, slices

    ints, oor, slices = index_exprs(B)
    npints = [np.int64(i) for i in ints] + [np.intp(B - 1)]
    for e in ints + npints + slices:
        idx = np.atleast_1d(np.arange(B)[e])
        label = f".bins[{e!r}]"
        if len(idx) == 0:
            rec.nops += 1
            try:
                got = x.bins[e]
                if got.num_bins != 0:
                    rec.bad("bins", "wrong-value", f"{label} is an empty selection but has bins")
            except Exception:
                pass
            continue
        if isinstance(e, np.integer) and not is_data:
            # documented index types are int | slice: a numpy integer may be refused, but not mis-answered
            rec.nops += 1
            try:
                got = x.bins[e]
            except Exception:
                continue
            if not C.snap_equal(C.snap(got), C.sel_bins(sx, idx)):
                rec.bad("bins", "wrong-value", f"result differs from the numpy reference {label}")
            continue
        got = rec.expect_value("bins", lambda e=e: x.bins[e], C.sel_bins(sx, idx), what=label)
        if got is not None and T in ("PatchedCounts", "PatchedSumWeights", "NormalisedCounts"):
            def commutes(got=got, idx=idx):
                a = got.sample_patch_sum()
                d, s = ref_patch_sum(C.sel_bins(sx, idx))
                return (np.allclose(a.data, d, rtol=1e-12, equal_nan=True)
                        and np.allclose(a.samples, s, rtol=1e-12, equal_nan=True))
            rec.expect_true("bins-sample", commutes, f"{label}.sample_patch_sum() != reference")
        if got is not None and T == "CorrFunc" and sample_defined:
            def commutes_cf(got=got, e=e):
                a, b = got.sample(), x.sample().bins[e]
                return (np.allclose(a.data, b.data, rtol=1e-12, equal_nan=True)
                        and np.allclose(a.samples, b.samples, rtol=1e-12, equal_nan=True))
            rec.expect_true("bins-sample", commutes_cf, f"{label}.sample() != sample().bins[...]")
    for e in oor:
        rec.expect_raise("bins-out-of-range", lambda e=e: x.bins[e], f".bins[{e}] with {B} bins")

    def iterate(indexer, n, sel):
        items = list(indexer)
        if len(items) != n:
            return False
        return all(C.snap_equal(C.snap(it), sel(sx, np.array([i]))) for i, it in enumerate(items))

    rec.expect_true("bins-iter", lambda: iterate(x.bins, B, C.sel_bins),
                    "iteration over .bins does not yield bins 0..n-1")

    def iterate_retained(make, n, sel):
        # one retained indexer object: a loop that is abandoned (peek, break) must not shift the next loop
        indexer = make()
        next(iter(indexer))
        for _ in indexer:
            break
        first = iterate(indexer, n, sel)
        return first and iterate(indexer, n, sel)

    rec.expect_true("bins-iter", lambda: iterate_retained(lambda: x.bins, B, C.sel_bins),
                    "a loop over a retained .bins indexer after an abandoned loop does not yield bins 0..n-1")

    # ---- patches indexing
    if not is_data:
        ints, oor, slices = index_exprs(N)
        for e in ints + slices:  # (numpy integers: see ASSUMPTIONS)
            idx = np.atleast_1d(np.arange(N)[e])
            label = f".patches[{e!r}]"
            if len(idx) == 0:
                rec.nops += 1
                try:
                    got = x.patches[e]
                    if got.num_patches != 0:
                        rec.bad("patches", "wrong-value", f"{label} empty selection has patches")
                except Exception:
                    pass
                continue
            got = rec.expect_value("patches", lambda e=e: x.patches[e], C.sel_patches(sx, idx),
                                   what=label)
            if got is not None and T != "CorrFunc" and len(idx) >= 1:
                def commutes(got=got, idx=idx):
                    a = got.sample_patch_sum()
                    d, s = ref_patch_sum(C.sel_patches(sx, idx))
                    return (np.allclose(a.data, d, rtol=1e-12, equal_nan=True)
                            and np.allclose(a.samples, s, rtol=1e-12, equal_nan=True))
                rec.expect_true("patches-sample", commutes,
                                f"{label}.sample_patch_sum() != reference on the sub-array")
        for e in oor:
            rec.expect_raise("patches-out-of-range", lambda e=e: x.patches[e],
                             f".patches[{e}] with {N} patches")
        rec.expect_true("patches-iter", lambda: iterate(x.patches, N, C.sel_patches),
                        "iteration over .patches does not yield patches 0..n-1")
        rec.expect_true("patches-iter", lambda: iterate_retained(lambda: x.patches, N, C.sel_patches),
                        "a loop over a retained .patches indexer after an abandoned loop does not yield patches 0..n-1")

    # ---- get_array(): the documented (bins, patches, patches) view, read-only in effect
    if T in ("PatchedCounts", "PatchedSumWeights", "NormalisedCounts"):
        def arr_ok():
            a = np.array(x.get_array())
            if T == "PatchedCounts":
                want = sx["counts"]
            elif T == "PatchedSumWeights":
                want = ref.weight_product(sx["sw1"], sx["sw2"], sx["auto"])
            else:
                tot = ref.weight_product(sx["sum_weights"]["sw1"], sx["sum_weights"]["sw2"],
                                         sx["sum_weights"]["auto"]).sum(axis=(1, 2))
                want = sx["counts"]["counts"] / tot[:, None, None]
            return a.shape == want.shape and np.allclose(a, want, rtol=1e-12, equal_nan=True)
        rec.expect_true("get_array", arr_ok, "get_array() is not the documented array")
        rec.expect_true("get_array", arr_ok, "second get_array() call differs from the first")
        rec.expect_true("get_array-immutability", lambda: C.snap_equal(C.snap(x), sx),
                        "get_array() changed the container")
    if T == "CorrFunc":
        def members_arrays():
            for m in ("dd", "dr", "rd", "rr"):
                nc = getattr(x, m)
                if nc is not None:
                    nc.get_array()
                    nc.counts.get_array()
                    nc.sum_weights.get_array()
            return C.snap_equal(C.snap(x), sx)
        rec.expect_true("get_array-immutability", members_arrays, "get_array() of a member changed the CorrFunc")
        if sample_defined:
            def resample():
                a, b = x.sample(), x.sample()
                return np.array_equal(a.data, b.data, equal_nan=True) and np.array_equal(a.samples, b.samples, equal_nan=True)
            rec.expect_true("sample-repeatable", resample, "sampling twice gives different results")

    # unmodified after everything
    rec.expect_true("immutability", lambda: C.snap_equal(C.snap(x), sx),
                    "container changed by read-only operations")

    res = dict(nontrivial=bool(B >= 2 or case["auto"]),
               key=[T, B, N, case["auto"], case.get("members"), case.get("closed"), case.get("kind")],
               counters=dict(operations=rec.nops))
    if rec.viols:
        # one violation per signature is enough
        uniq = {}
        for v in rec.viols:
            uniq.setdefault(v["signature"], v)
        res.update(status="violation", violations=list(uniq.values()))
    return res
