"""C09 - catalog creation is fail-stop: exact catalog or an exception, never a hang.

Engines E1 + E3b (model checking for the parallel pipeline): every fault kind x chunk position
x source is run sequentially and, for W in {2,3}, under every schedule of the virtual
reader/worker/writer pipeline.  "No enabled thread" is the hang verdict - no timeouts.
"""

from __future__ import annotations

import hashlib
import itertools
import os
import shutil

import numpy as np

from vlib import ref, runner, vmp, yawx

PROPERTY = "C09"
LEVEL = "model_checking"
FANOUT_CHUNK = 2
RULE = (
    "fault kinds {NaN/inf in ra|dec|weight|redshift (float64 and object columns); columns of unequal length (HDF5: which column x shorter/longer by 1..3 x chunk sizes that do / do not divide the lengths); missing column; patch id "
    "-1|32768|65538|-65535 (int64 columns; -1, -128, -32768 in int8/int16 columns; NaN in a float column); a centre without object; no patch method; target exists as {catalog, directory "
    "with foreign content, empty directory, regular file, directory holding only foreign files named patch_*, the same plus a patch_0 directory} x overwrite {F,T}; an existing catalog without overwrite together with faulty input; parent directory missing; exception "
    "injected into the k-th worker task / the k-th writer call; overwrite + late fault} x chunk position "
    "{first, middle, last} x source {data frame, HDF5} x workers {1,2,3}; a Parquet source (row groups of 2) whose k-th row-group read fails with an Arrow error (injected at the file seam) x chunk lengths {2,3,4}; for W>1 every schedule of the "
    "virtual pool/queue/writer-process pipeline (partial-order reduced, see DESIGN.md E3b). Oracle: the call "
    "raises or returns a catalog holding exactly the input; no deadlock; a pre-existing path is untouched "
    "(recursive digest) unless it is a catalog cache and overwrite was requested; after a raised creation "
    "Catalog(target) raises too unless the untouched pre-existing catalog is still there; raise/return verdict "
    "identical for W=1,2,3. Non-trivial: every case (each is a fault); distinct: (fault, position, source)."
)
ASSUMPTIONS = [
    "parallel mode decided on vlib/vmp.py; Process.terminate() ends a blocked writer; a hang verdict of the model "
    "was confirmed once on the real multiprocessing with a watchdog (DESIGN.md S18)",
    "an empty pre-existing directory with overwrite=True may be accepted or refused (not defined)",
]

N = 6
CHUNK = 2
CENTRES = np.array([[10.0, 0.0], [30.0, 0.0], [50.0, 10.0]])


def records(n=N):
    i = np.arange(n)
    return dict(ra=10.0 + 20.0 * (i % 3) + 2.0 * (i // 3), dec=10.0 * (i % 3 == 2) + 1.0 * (i // 3),
                w=1.0 + i / 16.0, z=0.5 + i / 32.0, pid=(i % 3).astype("i8"))


POS = {"first": 0, "middle": 2, "last": 5}


def cases(tier, seed):
    out = []
    srcs = ("frame", "hdf")
    for col, val, pos, src in itertools.product(("ra", "dec", "w", "z"), ("nan", "inf"), POS, srcs):
        if tier == "quick" and src == "hdf" and (val == "inf" or col in ("dec", "z")):
            continue
        out.append(dict(fault="value", col=col, val=val, pos=pos, source=src))
    # the same non-finite values in columns of dtype object (as left behind by mixed-type tables)
    for col, val, pos in itertools.product(("ra", "w"), ("nan", "inf"), ("middle", "last")):
        out.append(dict(fault="value", col=col, val=val, pos=pos, source="frame", col_dtype="object"))
    for val, pos in itertools.product((-1, 32768, 65538, -65535, 40000), POS):
        out.append(dict(fault="patch-id", val=val, pos=pos, source="frame"))
    # negative ids in columns stored as narrow integers (no wider than the library's own id type)
    for (val, dt), pos in itertools.product(((-1, "i1"), (-128, "i1"), (-1, "i2"), (-32768, "i2")), POS):
        out.append(dict(fault="patch-id", val=val, pos=pos, source="frame", id_dtype=dt))
    # an undefined index in an id column of floating-point type
    for pos in POS:
        out.append(dict(fault="patch-id", val="nan", pos=pos, source="frame", id_dtype="f8"))
        if tier != "quick":
            out.append(dict(fault="patch-id", val=val, pos=pos, source="hdf"))
    out.append(dict(fault="length", source="hdf"))
    # one HDF5 dataset shorter or longer than the others, for chunk lengths that do and do not divide the lengths
    deltas, chunks = ((-2, -1, 2), (2, None)) if tier == "quick" else ((-3, -2, -1, 1, 2, 3), (1, 2, 3, 4, 6, None))
    for col, delta, chunk in itertools.product(("ra", "dec", "w", "z"), deltas, chunks):
        out.append(dict(fault="length", source="hdf", col=col, delta=delta, chunk=chunk))
    for src in srcs:
        out.append(dict(fault="missing-column", source=src))
    for k in range(3):
        out.append(dict(fault="empty-centre", k=k, source="frame"))
    out.append(dict(fault="no-method", source="frame"))
    for pre, ow in itertools.product(("catalog", "foreign-dir", "empty-dir", "file", "patch-named-files", "patch-named-dir+file"), (False, True)):
        out.append(dict(fault="exists", pre=pre, overwrite=ow, source="frame"))
    out.append(dict(fault="parent-missing", source="frame"))
    for where, k in itertools.product(("worker", "writer"), (0, 1, 2)):
        out.append(dict(fault="inject", where=where, k=k, source="frame"))
    for pos in POS:
        out.append(dict(fault="overwrite-then-fault", pos=pos, source="frame"))
    # two faults at once: the target is an existing catalog, overwriting was not requested, and the input is faulty
    for pos in POS:
        out.append(dict(fault="exists-and-fault", pos=pos, source="frame"))
    out.append(dict(fault="none", source="frame"))
    out.append(dict(fault="none", source="hdf"))
    # a frame-like mapping (the documented input of from_dataframe) that does not enforce equal column lengths: one column
    # holds fewer values than the others (a single value would broadcast silently)
    for col, keep, chunk in itertools.product(("w", "z", "dec"), (1, 2, 5), (2, 6)):
        if tier == "quick" and col == "z" and keep != 1:
            continue
        out.append(dict(fault="ragged", source="mapping", col=col, keep=keep, chunk=chunk))
    out.append(dict(fault="none", source="mapping"))
    # a Parquet source (row groups of 2 records) whose k-th row group cannot be read: an error of the Arrow library at
    # the file seam (chunk lengths 2, 3, 4: the failing group starts a chunk or completes one)
    for chunk in (2, 3, 4):
        out.append(dict(fault="none", source="parquet", chunk=chunk))
        for k, err in itertools.product((0, 1, 2), ("ArrowInvalid", "ArrowMemoryError")):
            if tier == "quick" and err == "ArrowMemoryError" and k != 2:
                continue
            out.append(dict(fault="read-error", source="parquet", chunk=chunk, k=k, err=err))
    for n, chunk in ((7, 3), (5, 5), (7, 4), (3, 1)):  # chunk lengths that are no multiple of the worker count
        out.append(dict(fault="none", source="frame", n=n, chunk=chunk))
    return out


def setup():
    yawx.sequential()
    import warnings

    warnings.simplefilter("ignore")
    np.seterr(all="ignore")


def tree_digest(path):
    """Recursive digest of a path (names, types, bytes)."""
    h = hashlib.sha1()
    if not os.path.lexists(path):
        return "absent"
    if os.path.isfile(path):
        h.update(b"F" + open(path, "rb").read())
        return h.hexdigest()
    for root, dirs, files in sorted(os.walk(path)):
        dirs.sort()
        h.update(("D" + os.path.relpath(root, path)).encode())
        for f in sorted(files):
            h.update(("F" + f).encode() + open(os.path.join(root, f), "rb").read())
    return h.hexdigest()


class ColumnFrame:
    """Minimal frame-like input of Catalog.from_dataframe: len(), [slice] -> frame, [name] -> column with to_numpy()."""

    class Column:
        def __init__(self, values):
            self.values = np.asarray(values)

        def to_numpy(self):
            return self.values

        def __array__(self, *a, **k):
            return self.values

    def __init__(self, columns):
        self.columns = {name: np.asarray(col) for name, col in columns.items()}

    def __len__(self):
        return len(self.columns["ra"])

    def __getitem__(self, item):
        if isinstance(item, slice):
            return ColumnFrame({name: col[item] for name, col in self.columns.items()})
        return ColumnFrame.Column(self.columns[item])


class Scenario:
    """Builds input + pre-existing state for one fault; run(target) performs the creation."""

    def __init__(self, case, d):
        import pandas as pd
        from yaw import AngularCoordinates

        self.case = case
        f = case["fault"]
        cols = records(case.get("n", N))
        self.kw = dict(ra_name="ra", dec_name="dec", weight_name="w", redshift_name="z",
                       chunksize=case.get("chunk", CHUNK))
        self.mode = "centres"
        self.ncen = 3
        if f == "value":
            v = dict(nan=np.nan, inf=np.inf)[case["val"]]
            cols[case["col"]] = cols[case["col"]].copy().astype(case.get("col_dtype", "f8"))
            cols[case["col"]][POS[case["pos"]]] = v
        if f == "patch-id":
            self.mode = "ids"
            cols["pid"] = cols["pid"].copy().astype(case.get("id_dtype", "i8"))
            cols["pid"][POS[case["pos"]]] = np.nan if case["val"] == "nan" else case["val"]
        if f == "missing-column":
            self.kw["weight_name"] = "nope"
        if f == "empty-centre":
            keep = (np.arange(N) % 3) != case["k"]
            cols = {k: v[keep] for k, v in cols.items()}
        if f == "no-method":
            self.mode = "none"
        if self.mode == "ids":
            self.kw["patch_name"] = "pid"
        elif self.mode == "centres":
            self.kw["patch_centers"] = AngularCoordinates(np.deg2rad(CENTRES))
        self.cols = cols
        self.overwrite = bool(case.get("overwrite", f == "overwrite-then-fault"))
        if f in ("overwrite-then-fault", "exists-and-fault"):
            cols["ra"] = cols["ra"].copy()
            cols["ra"][POS[case["pos"]]] = np.nan
        self.df = pd.DataFrame(cols) if f not in ("length", "ragged") else None
        if case["source"] == "mapping":
            ragged = dict(cols)
            if f == "ragged":
                ragged[case["col"]] = ragged[case["col"]][: case["keep"]]
            self.df = ColumnFrame(ragged)
        self.file = None
        if case["source"] == "hdf":
            import h5py

            self.file = os.path.join(d, "input.hdf5")
            with h5py.File(self.file, "w") as fh:
                for k, v in cols.items():
                    if f == "length" and k == case.get("col", "z"):
                        delta = case.get("delta", -1)
                        v = v[:delta] if delta < 0 else np.concatenate([v, v[:delta] + 0.125])
                    fh.create_dataset(k, data=v)
        if case["source"] == "parquet":
            import pyarrow as pa
            from pyarrow import parquet

            self.file = os.path.join(d, "input.parquet")
            parquet.write_table(pa.table({k: v for k, v in cols.items() if k != "pid"}), self.file, row_group_size=2)
        self.inject = (case["where"], case["k"]) if f == "inject" else None
        if f == "read-error":
            self.inject = ("rowgroup", case["k"], case["err"])
        self.expect_ok = f == "none" or (f == "exists" and case["pre"] == "catalog" and case["overwrite"])

    def prepare_target(self, d):
        """Creates the pre-existing state, returns (target path, digest before or None)."""
        f, case = self.case["fault"], self.case
        target = os.path.join(d, "cat")
        if f == "parent-missing":
            return os.path.join(d, "no", "such", "parent", "cat"), None
        pre = case.get("pre") if f == "exists" else ("catalog" if f in ("overwrite-then-fault", "exists-and-fault") else None)
        if pre == "catalog":
            # (the prior catalog is created sequentially; the worker count of the attempt itself is restored)
            workers = os.environ.get("YAW_NUM_THREADS")
            yawx.sequential()
            old = yawx.make_catalog(target, [100.0, 101.0, 130.0, 131.0], [0.0, 1.0, 0.0, 1.0],
                                    w=[7.0, 8.0, 9.0, 10.0], z=[0.9, 0.91, 0.92, 0.93], pid=[0, 0, 1, 1])
            del old
            if workers is not None:
                os.environ["YAW_NUM_THREADS"] = workers
        elif pre == "foreign-dir":
            os.makedirs(os.path.join(target, "precious"))
            with open(os.path.join(target, "precious", "thesis.tex"), "w") as fh:
                fh.write("do not delete")
        elif pre in ("patch-named-files", "patch-named-dir+file"):
            # not a catalog cache although every entry carries the cache's name prefix
            os.makedirs(target)
            for name in ("patch_centers.txt", "patch_notes.md"):
                with open(os.path.join(target, name), "w") as fh:
                    fh.write("my own notes")
            if pre == "patch-named-dir+file":
                os.makedirs(os.path.join(target, "patch_0"))
                with open(os.path.join(target, "patch_0", "results.txt"), "w") as fh:
                    fh.write("precious")
        elif pre == "empty-dir":
            os.makedirs(target)
        elif pre == "file":
            with open(target, "w") as fh:
                fh.write("a regular file")
        return target, (tree_digest(target) if pre else None)

    def create(self, target):
        from yaw import Catalog

        kw = dict(self.kw, overwrite=self.overwrite)
        if self.case["source"] in ("hdf", "parquet"):
            return Catalog.from_file(target, self.file, **kw)
        return Catalog.from_dataframe(target, self.df, **kw)


class Injector:
    """Raises in the k-th call of the worker task body / the writer's process_patches."""

    def __init__(self, inject):
        self.inject = inject
        self.count = 0

    def __enter__(self):
        from yaw.catalog import catalog as C

        self.C = C
        if self.inject is None:
            return self
        where, k = self.inject[:2]
        self.count = 0
        if where == "rowgroup":
            import pyarrow.lib as palib

            from yaw.catalog import readers as R

            self.R, self.orig = R, R.parquet.ParquetFile
            real, err = self.orig, getattr(palib, self.inject[2])

            class FaultyFile:
                def __init__(self, *a, **kw):
                    self._pf = real(*a, **kw)

                def __getattr__(self, name):
                    return getattr(self._pf, name)

                def read_row_group(self, i, *a, **kw):
                    if i == k:
                        raise err(f"injected: row group {i} cannot be read")
                    return self._pf.read_row_group(i, *a, **kw)

            R.parquet.ParquetFile = FaultyFile
        elif where == "worker":
            self.orig = C.split_into_patches

            def wrapped(chunk, centers):
                self.count += 1
                if self.count - 1 == k:
                    raise RuntimeError("injected worker fault")
                return self.orig(chunk, centers)

            C.split_into_patches = wrapped
        else:
            self.orig = C.CatalogWriter.process_patches
            outer = self

            def wrapped(self_, patches):
                outer.count += 1
                if outer.count - 1 == k:
                    raise OSError("injected writer fault (disk full)")
                return outer.orig(self_, patches)

            C.CatalogWriter.process_patches = wrapped
        return self

    def __exit__(self, *a):
        if self.inject is None:
            return
        if self.inject[0] == "rowgroup":
            self.R.parquet.ParquetFile = self.orig
        elif self.inject[0] == "worker":
            self.C.split_into_patches = self.orig
        else:
            self.C.CatalogWriter.process_patches = self.orig


def exact(cat, cols):
    """Does the catalog hold exactly the input records?"""
    n = len(cols["ra"])
    rows = np.column_stack([np.deg2rad(cols["ra"]), np.deg2rad(cols["dec"]), cols["w"], cols["z"]])
    got = []
    for p in cat.values():
        d = p.load_data()
        if list(d.dtype.names) != ["ra", "dec", "weights", "redshifts"]:
            return False
        got.append(np.column_stack([d[f] for f in d.dtype.names]))
    got = np.concatenate(got) if got else np.zeros((0, 4))
    if got.shape != rows.shape:
        return False
    a = got[np.lexsort(got.T[::-1])]
    b = rows[np.lexsort(rows.T[::-1])]
    return bool(np.allclose(a, b, rtol=1e-15, atol=0))


def attempt(sc, d):
    """One creation attempt; returns an outcome dict (no scheduling involved here)."""
    from yaw import Catalog

    target, before = sc.prepare_target(d)
    out = dict(before=before)
    try:
        with Injector(sc.inject):
            cat = sc.create(target)
        out["result"] = "returned-exact" if exact(cat, sc.cols) else "returned-other-data"
    except Exception as e:  # noqa: BLE001
        out["result"] = "raised"
        out["exc"] = f"{type(e).__name__}: {str(e)[:80]}"
    out["target"] = target
    return out


def post_conditions(sc, out, tag, viols):
    """Checked after the execution ended (outside the scheduler)."""
    from yaw import Catalog

    f, case = sc.case["fault"], sc.case
    target = out["target"]
    res = out["result"]
    sig = lambda what: f"C09/{tag}/{f}/{what}"  # noqa: E731
    desc = {k: v for k, v in case.items()}
    if res == "returned-other-data":
        viols.append(dict(signature=sig("returned-other-data"),
                          what=f"creation returned a catalog that does not hold the input ({tag}, {desc})"))
    if res == "returned-exact" and not sc.expect_ok and not (f == "exists" and case["pre"] == "empty-dir" and case["overwrite"]):
        viols.append(dict(signature=sig("fault-accepted"), what=f"faulty creation succeeded ({tag}, {desc})"))
    if res == "raised" and sc.expect_ok:
        viols.append(dict(signature=sig("valid-refused"), what=f"valid creation raised {out.get('exc')} ({tag})"))
    before = out["before"]
    if before is not None:
        may_touch = case.get("pre", "catalog") == "catalog" and sc.overwrite
        if case.get("pre") == "empty-dir" and sc.overwrite:
            may_touch = True
        if not may_touch and tree_digest(target) != before:
            viols.append(dict(signature=sig(f"pre-existing-{case.get('pre', 'catalog')}-modified/overwrite={sc.overwrite}"),
                              what=f"a pre-existing {case.get('pre')} at the target was modified or deleted although "
                                   f"overwrite={sc.overwrite} ({tag})"))
    if res == "raised":
        untouched_old = before is not None and tree_digest(target) == before and case.get("pre", "catalog") == "catalog"
        if not untouched_old:
            try:
                yawx.sequential()
                c = Catalog(target)
                n = sum(c.get_num_records())
                viols.append(dict(signature=sig("failed-creation-opens-as-catalog"),
                                  what=f"creation raised ({out.get('exc')}) but the directory left behind opens as a "
                                       f"valid catalog with {n} records ({tag}, {desc})"))
            except Exception:
                pass


def run_case(case):
    viols = []
    verdicts = {}
    counters = dict(executions=0, states=0, transitions=0, deadlocks=0)
    for W in (1, 2, 3):
        d = runner.fresh_dir("c09")
        sc = Scenario(case, d)
        if W == 1:
            yawx.sequential()
            vmp.uninstall()
            out = attempt(sc, d)
            post_conditions(sc, out, "sequential", viols)
            verdicts[W] = {"raised" if out["result"] == "raised" else "returned"}
            counters["executions"] += 1
            continue
        vmp.install(workers=W)
        outs = []

        def body():
            dd = runner.fresh_dir("c09x")
            o = attempt(sc, dd)
            outs.append(o)
            return o

        def observe(ex):
            if ex["verdict"] != "ok":
                return "deadlock " + "/".join(f"{k}:{v}" for k, v in sorted(ex["deadlock"].items()))
            if ex["exc"] is not None:
                return f"harness-exc {ex['exc']!r}"
            return ex["value"]["result"]

        try:
            res = vmp.explore(body, observe=observe, max_exec=3000, focus=-1)
            if res["capped"]:
                # more interleavings than on the pinned tree (never happens there): fall back to all schedules with
                # at most two deviations from the default one and say so in the counters
                outs.clear()
                res = vmp.explore(body, observe=observe, max_exec=6000, focus=-1, bound=2)
                counters["deviation_bounded_fallbacks"] = counters.get("deviation_bounded_fallbacks", 0) + 1
        finally:
            vmp.uninstall()
            yawx.sequential()
        if res["capped"]:
            raise RuntimeError(f"execution cap hit: {case} W={W}")
        counters["executions"] += res["executions"]
        counters["states"] += res["states"]
        counters["transitions"] += res["transitions"]
        verdicts[W] = set()
        tag = f"parallel"
        for dig, o in res["outcomes"].items():
            if dig.startswith("deadlock"):
                counters["deadlocks"] += o["count"]
                verdicts[W].add("hang")
                viols.append(dict(signature=f"C09/parallel/{case['fault']}/deadlock",
                                  what=f"parallel creation (W={W}) never returns: {dig} (fault {case}, schedule "
                                       f"{o['trace']})", detail=dict(choices=o["trace"], W=W)))
            elif dig.startswith("harness-exc"):
                raise RuntimeError(dig)
            else:
                verdicts[W].add("raised" if dig == "raised" else "returned")
        for o in outs:
            if "result" in o and os.path.lexists(os.path.dirname(o["target"])):
                post_conditions(sc, o, tag, viols)
    flat = {W: "/".join(sorted(v)) for W, v in verdicts.items()}
    if len(set(flat.values())) > 1 and not any("hang" in v for v in flat.values()):
        viols.append(dict(signature=f"C09/verdict-differs/{case['fault']}",
                          what=f"sequential and parallel creation disagree for {case}: {flat}"))
    res = dict(nontrivial=True, key=case, counters=counters, outcomes=[repr(sorted(flat.items()))],
               sample=dict(case, verdicts=flat))
    if viols:
        uniq = {}
        for v in viols:
            uniq.setdefault(v["signature"], v)
        res.update(status="violation", violations=list(uniq.values()))
    return res


def finish(ctx):
    """Conformance of the virtual pipeline: the same scenarios run free on the real multiprocessing module."""
    import json
    import subprocess
    import sys

    script = os.path.join(os.path.dirname(os.path.dirname(os.path.abspath(__file__))), "vlib", "realmp_conf.py")
    p = subprocess.run([sys.executable, script, "c09", str(ctx["seed"])], capture_output=True, text=True)
    try:
        rep = json.loads(p.stdout.strip().splitlines()[-1])
    except Exception:
        ctx["errors"].append(dict(case="realmp conformance", trace=p.stdout[-2000:] + p.stderr[-2000:]))
        return dict(conformance_runs=0)
    if rep["mismatches"] and not ctx["found"]:
        ctx["errors"].append(dict(case="realmp conformance",
                                  trace="the real multiprocessing pipeline behaves differently from what the virtual "
                                        f"exploration found: {rep['mismatches']}"))
    return dict(conformance_runs=rep["runs"], conformance_mismatches=len(rep["mismatches"]))
