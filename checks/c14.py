"""C14 - spherical geometry primitives are accurate everywhere on the sphere.

Engine E1, vectorised: every ordered pair of a special-value point alphabet, a generic
128x64 lattice with antipodes and near-antipodes, round trips, chord<->angle on a distance
alphabet, means of all point sets of size 1..3. Oracle: Vincenty formula in long double.
"""

from __future__ import annotations

import itertools
import math

import numpy as np

from vlib import ref, yawx

PROPERTY = "C14"
LEVEL = "exploration"
RULE = (
    "special RA values {0,5e-324,1e-300,1e-16,1e-9,pi/2,pi-+1e-9,pi-+ulp,pi,3pi/2,2pi-1e-9,2pi-ulp,2 generic} x "
    "Dec values {+-pi/2,+-(pi/2-ulp),+-(pi/2-1e-9),+-1e-9,+-1e-16,0,2 generic}: all points, all ordered "
    "pairs; generic lattice 128x64 (irrational offsets, low digits moved by VERIF_SEED) with exact antipode "
    "and near-antipodes at 1e-12,1e-9,1e-6; distance alphabet incl. 0, denormal, pi-ulp, pi; all point "
    "sets of size 1-3 of a 15-point alphabet (3 points with RA outside [0,2pi)), weighted/unweighted (weights also scaled by 1e-170 and 1e160); means of 2^20-1 and 2^20+3 (| 2^21+5, 3*2^20+1) points in two uneven clusters; round trips of sets of exactly 1..5 points; histories {to_3d, distance, mean} -> in-place edit through {adopted buffer, .data, sliced views} -> {to_3d, distance, mean} equal to a fresh object of the current values. Bounds: |distance error| <= min(1e-7, "
    "1e-15*(1+2/(pi-theta))) (conditioning of the chord formula), never raises; round trips within 1e-7 (1e-12 away from RA=0/pi singular "
    "conditioning), RA in [0,2pi); unit norm 4e-16; conversions monotone. Non-trivial: a pair/point "
    "involving a special value or an antipode. One case = one block of pairs (vectorised)."
)
ASSUMPTIONS = [
    "numpy long double is 80-bit on this platform (checked at start); the Vincenty atan2 formula is well "
    "conditioned everywhere, so it serves as exact reference to ~1e-18",
    "bounds follow the conditioning of the chord formula (sqrt(eps) near pi) - fixed in DESIGN.md before running",
]

PI = math.pi
ULP = lambda x, d: float(np.nextafter(x, d))  # noqa: E731


def special_points():
    ras = [0.0, 5e-324, 1e-300, 1e-16, 1e-9, PI / 2, PI - 1e-9, ULP(PI, 0), PI, ULP(PI, 4), PI + 1e-9,
           3 * PI / 2, 2 * PI - 1e-9, ULP(2 * PI, 0), 1.234567, 4.7654321, 0.3]
    decs = [-PI / 2, ULP(-PI / 2, 0), -PI / 2 + 1e-9, -1.0, -1e-9, -1e-16, 0.0, 1e-16, 1e-9, 0.7,
            PI / 2 - 1e-9, ULP(PI / 2, 0), PI / 2]
    return np.array(list(itertools.product(ras, decs)))


def lattice(seed):
    jit = 1e-7 * ((seed * 0.6180339887498949) % 1.0)
    ras = (np.arange(128) + 0.41421356) * (2 * PI / 128) + jit
    sins = (np.arange(64) + 0.7320508) / 64.0 * 2 - 1
    decs = np.arcsin(np.clip(sins, -1, 1)) + jit
    decs = np.clip(decs, -PI / 2, PI / 2)
    return ras % (2 * PI), decs


def cases(tier, seed):
    out = []
    n = len(special_points())
    for i in range(n):
        out.append(dict(part="pairs", first=i))
    nra = 128
    for i in range(nra):
        out.append(dict(part="antipodes", row=i, seed=seed))
    out.append(dict(part="roundtrip", seed=seed))
    out.append(dict(part="chord"))
    out.append(dict(part="from3d"))
    for n in (1, 2, 3, 4, 5):
        out.append(dict(part="smallsets", n=n))
    pts12 = list(range(15))
    for k in (1, 2, 3):
        for combo in itertools.combinations(pts12, k):
            out.append(dict(part="mean", idx=list(combo)))
    # means of more points than any internal block size (2^20 and beyond), unevenly spread over the blocks
    for n in (2**20 + 3, 2**20 - 1) + ((2**21 + 5, 3 * 2**20 + 1) if tier == "thorough" else ()):
        out.append(dict(part="bigmean", n=n))
    # one coordinate object used, modified in place (through the adopted input buffer, .data, or a sliced view) and used again
    for first, edit, second in itertools.product(("to_3d", "distance", "mean"), ("buffer", "data", "view"),
                                                 ("to_3d", "distance", "mean")):
        out.append(dict(part="history", first=first, edit=edit, second=second))
    if tier == "thorough":
        for s in range(1, 6):
            for i in range(nra):
                out.append(dict(part="antipodes", row=i, seed=seed + 1000 * s))
    return out


def setup():
    yawx.sequential()
    assert np.finfo(np.longdouble).eps < 1e-18, "long double is not extended precision here"


def viol(sig, what, detail=None):
    return dict(signature=sig, what=what, detail=detail)


def cond_bound(theta):
    """Error bound from the conditioning of theta = 2 asin(c/2): a chord error of a few ulp (1e-15) is
    amplified by 1/cos(theta/2) ~ 2/(pi-theta); at theta = pi it turns into sqrt(2*dc) ~ 1e-7."""
    theta = np.asarray(theta, dtype=float)
    return np.minimum(1e-7, 1e-15 * (1.0 + 2.0 / np.maximum(PI - theta, 1e-300)))


def check_distance(A, B, v, label):
    """A, B: (n,2) arrays; compares AngularCoordinates.distance with the reference."""
    from yaw import AngularCoordinates

    exact = np.asarray(ref.sep(A[:, 0], A[:, 1], B[:, 0], B[:, 1]))
    try:
        got = AngularCoordinates(A).distance(AngularCoordinates(B)).data
    except Exception as e:
        # find one failing pair
        bad = None
        for a, b in zip(A, B):
            try:
                AngularCoordinates(a).distance(AngularCoordinates(b))
            except Exception:
                bad = (a.tolist(), b.tolist())
                break
        kind = "antipodal" if bad and float(ref.sep(bad[0][0], bad[0][1], bad[1][0], bad[1][1])) > PI - 1e-6 else "other"
        v.append(viol(f"C14/distance/exception:{type(e).__name__}/{kind}",
                      f"distance raised {yawx.exc_name(e)} for points on the sphere, e.g. {bad}",
                      dict(pair=bad)))
        return
    err = np.abs(got.astype(np.longdouble) - exact).astype(float)
    ex = exact.astype(float)
    lim = cond_bound(ex)
    bad = np.nonzero(~(err <= lim))[0]
    if len(bad):
        k = bad[np.argmax(err[bad] / lim[bad])]
        zone = "near-antipodal" if ex[k] > PI - 1e-6 else ("tiny" if ex[k] < 1e-6 else "regular")
        v.append(viol(f"C14/distance/inaccurate/{zone}",
                      f"{label}: distance({A[k].tolist()}, {B[k].tolist()}) = {got[k]!r}, exact "
                      f"{ex[k]!r}, error {err[k]:.3e} > {lim[k]:.0e}", dict(a=A[k].tolist(), b=B[k].tolist())))


def run_pairs(case):
    pts = special_points()
    i = case["first"]
    A = np.repeat(pts[i:i + 1], len(pts), axis=0)
    v = []
    check_distance(A, pts, v, "special pairs")
    return v, True, len(pts)


def run_antipodes(case):
    ras, decs = lattice(case["seed"])
    ra = ras[case["row"]]
    P = np.column_stack([np.full(len(decs), ra), decs])
    anti = np.column_stack([(P[:, 0] + PI) % (2 * PI), -P[:, 1]])
    v = []
    n = 0
    check_distance(P, anti, v, "exact antipodes")
    n += len(P)
    for eps in (1e-12, 1e-9, 1e-6):
        for dra, ddec in ((eps, 0.0), (0.0, eps), (-eps, eps)):
            Q = np.column_stack([(anti[:, 0] + dra) % (2 * PI), np.clip(anti[:, 1] + ddec, -PI / 2, PI / 2)])
            check_distance(P, Q, v, f"near-antipodes {eps}")
            n += len(P)
    # generic pairs within the row and against a shifted row
    other = np.column_stack([np.full(len(decs), ras[(case["row"] * 7 + 3) % len(ras)]), decs[::-1]])
    check_distance(P, other, v, "generic pairs")
    n += len(P)
    return v, True, n


def run_roundtrip(case):
    from yaw import AngularCoordinates

    ras, decs = lattice(case["seed"])
    lat = np.array(list(itertools.product(ras[::4], decs[::2])))
    pts = np.concatenate([special_points(), lat])
    v = []
    c = AngularCoordinates(pts)
    xyz = c.to_3d()
    norm_err = np.abs(np.sqrt((xyz.astype(np.longdouble) ** 2).sum(axis=1)) - 1).astype(float)
    if norm_err.max() > 4e-16:
        k = int(np.argmax(norm_err))
        v.append(viol("C14/to_3d/not-unit", f"|to_3d({pts[k].tolist()})| - 1 = {norm_err[k]:.3e}"))
    exact_xyz = ref.to_xyz(pts[:, 0], pts[:, 1])
    d = np.abs(xyz.astype(np.longdouble) - exact_xyz).max(axis=1).astype(float)
    if d.max() > 4e-16:
        k = int(np.argmax(d))
        v.append(viol("C14/to_3d/inaccurate", f"to_3d({pts[k].tolist()}) off by {d[k]:.3e}"))
    try:
        back = AngularCoordinates.from_3d(xyz)
    except Exception as e:
        return [viol(f"C14/from_3d/exception:{type(e).__name__}", yawx.exc_name(e))], True, len(pts)
    if np.any(~(back.ra >= 0.0)) or np.any(~(back.ra < 2 * PI)):
        k = int(np.nonzero(~((back.ra >= 0) & (back.ra < 2 * PI)))[0][0])
        v.append(viol("C14/from_3d/ra-out-of-range", f"from_3d(to_3d({pts[k].tolist()})) has RA {back.ra[k]!r}"))
    # right ascension itself must come back wherever it is defined (x, y do not underflow), also next to a pole
    dra = np.abs((back.ra - pts[:, 0] % (2 * PI) + PI) % (2 * PI) - PI)
    defined = np.hypot(xyz[:, 0], xyz[:, 1]) > 1e-300
    if (dra[defined] > 1e-7).any():
        k = int(np.nonzero(defined)[0][np.argmax(dra[defined])])
        v.append(viol("C14/roundtrip/ra-lost", f"from_3d(to_3d({pts[k].tolist()})) returns RA {back.ra[k]!r} "
                      f"({dra[k]:.3e} rad off)"))
    # single-precision input must be computed in double precision (same values, same results)
    for dt in (np.float32, np.float16):
        p32 = pts.astype(dt)
        c32 = AngularCoordinates(p32)
        c64 = AngularCoordinates(p32.astype(np.float64))
        if not (np.array_equal(c32.to_3d(), c64.to_3d())
                and np.array_equal(c32.distance(c64[::-1]).data, c64.distance(c64[::-1]).data)):
            v.append(viol(f"C14/dtype/{np.dtype(dt).name}-input-computed-in-low-precision",
                          f"coordinates given as {np.dtype(dt).name} array give other unit vectors / distances than "
                          "the same values given as float64"))
    s = np.asarray(ref.sep(pts[:, 0], pts[:, 1], back.ra, back.dec)).astype(float)
    if s.max() > 1e-7:
        k = int(np.argmax(s))
        v.append(viol("C14/roundtrip/inaccurate", f"from_3d(to_3d(p)) is {s[k]:.3e} rad away from p = {pts[k].tolist()}"))
    # away from the RA = 0 / pi meridians (arccos conditioning) and the poles the round trip is tight
    away = (np.abs(np.sin(pts[:, 0])) > 1e-3) & (np.abs(np.cos(pts[:, 1])) > 1e-3)
    if s[away].max() > 1e-12:
        k = int(np.nonzero(away)[0][np.argmax(s[away])])
        v.append(viol("C14/roundtrip/inaccurate-generic", f"generic point {pts[k].tolist()} moves by {s[k]:.3e}"))
    return v, True, len(pts)


def run_chord(case):
    from yaw import AngularDistances

    dd = np.array(sorted({0.0, 5e-324, 1e-300, 1e-16, 1e-9, 1e-6, 1e-3, 0.1, 0.5, 1.0, 1.5, PI / 2, 2.0, 2.5,
                          3.0, 3.1, PI - 1e-3, PI - 1e-6, PI - 1e-9, ULP(PI, 0), PI}
                         | {float(x) for x in np.linspace(0, PI, 4001)}))
    v = []
    chord = AngularDistances(dd).to_3d()
    exact_chord = (2 * np.sin(dd.astype(np.longdouble) / 2)).astype(float)
    if np.abs(chord - exact_chord).max() > 4e-16:
        v.append(viol("C14/chord/inaccurate", "angle->chord off by more than 4e-16"))
    if np.any(np.diff(chord) < 0):
        k = int(np.nonzero(np.diff(chord) < 0)[0][0])
        v.append(viol("C14/chord/not-monotone", f"angle->chord decreases between {dd[k]!r} and {dd[k + 1]!r}"))
    try:
        back = AngularDistances.from_3d(chord).data
    except Exception as e:
        return [viol(f"C14/chord/exception:{type(e).__name__}", f"from_3d(to_3d(angle)) raised {yawx.exc_name(e)}")], True, len(dd)
    err = np.abs(back - dd)
    lim = cond_bound(dd)
    if np.any(err > lim):
        k = int(np.argmax(err / lim))
        v.append(viol("C14/chord/roundtrip", f"angle {dd[k]!r} -> chord -> angle {back[k]!r}"))
    if np.any(np.diff(back) < 0):
        v.append(viol("C14/chord/inverse-not-monotone", "chord->angle not monotone"))
    big = np.diff(dd) > 1e-7 * np.maximum(dd[1:], 1e-300)
    if np.any((np.diff(chord) <= 0) & big & (dd[1:] < PI - 1e-3)):
        v.append(viol("C14/chord/not-strictly-monotone", "angle->chord not strictly increasing on separated inputs"))
    cc = np.array(sorted({0.0, 1e-300, 1e-16, 1e-9, 1e-3, 0.5, 1.0, 1.5, 1.9, 2.0 - 1e-9, ULP(2.0, 0), 2.0}
                         | {float(x) for x in np.linspace(0, 2, 2001)}))
    try:
        ang = AngularDistances.from_3d(cc)
        cback = ang.to_3d()
        if np.abs(cback - cc).max() > 4e-16:
            k = int(np.argmax(np.abs(cback - cc)))
            v.append(viol("C14/chord/inverse-roundtrip", f"chord {cc[k]!r} -> angle -> chord {cback[k]!r}"))
        exact_ang = (2 * np.arcsin(cc.astype(np.longdouble) / 2)).astype(float)
        lim2 = cond_bound(exact_ang)
        if np.any(np.abs(ang.data - exact_ang) > lim2):
            v.append(viol("C14/chord/inverse-inaccurate", "chord->angle inaccurate"))
    except Exception as e:
        v.append(viol(f"C14/chord/exception:{type(e).__name__}", f"from_3d on chords in [0,2] raised {yawx.exc_name(e)}"))
    return v, True, len(dd) + len(cc)


def run_from3d(case):
    """from_3d fed directly with unit vectors having exact zeros / signed zeros / tiny components."""
    from yaw import AngularCoordinates

    comps = [-1.0, -1e-9, -0.0, 0.0, 1e-9, 1.0, 0.6]
    vecs = []
    for x, y, z in itertools.product(comps, repeat=3):
        n = math.sqrt(x * x + y * y + z * z)
        if n == 0:
            continue
        vecs.append((x / n, y / n, z / n))
    vecs = np.array(vecs)
    v = []
    era, edec = ref.from_xyz(vecs)
    try:
        got = AngularCoordinates.from_3d(vecs)
    except Exception as e:
        return [viol(f"C14/from_3d/exception:{type(e).__name__}", yawx.exc_name(e))], True, len(vecs)
    ok_range = (got.ra >= 0) & (got.ra < 2 * PI)
    if not ok_range.all():
        k = int(np.nonzero(~ok_range)[0][0])
        v.append(viol("C14/from_3d/ra-out-of-range", f"from_3d({vecs[k].tolist()}) has RA {got.ra[k]!r}"))
    s = np.asarray(ref.sep(era, edec, got.ra, got.dec)).astype(float)
    if not (s <= 1e-7).all():
        k = int(np.argmax(np.where(np.isfinite(s), s, np.inf)))
        v.append(viol("C14/from_3d/wrong-direction",
                      f"from_3d({vecs[k].tolist()}) = {got.data[k].tolist()} is {s[k]:.3e} rad away from "
                      f"the direction of the vector"))
    return v, True, len(vecs)


MEAN_POINTS = [(0.0, 0.0), (1.234567, 0.7), (4.7654321, -1.0), (0.3, PI / 2), (2.0, -PI / 2), (PI, 0.0),
               (2 * PI - 1e-9, 1e-9), (1e-9, -1e-9), (PI / 2, 0.7), (3 * PI / 2, 0.7), (0.3, 0.7), (0.3 + 1e-6, 0.7),
               # right ascensions outside [0, 2 pi): the same points as their wrapped values, means are reported in range
               (-0.5, 0.3), (2 * PI, -0.2), (7.0, 0.1)]


def run_mean(case):
    from yaw import AngularCoordinates

    pts = np.array([MEAN_POINTS[i] for i in case["idx"]])
    v = []
    n = 0
    base_w = np.array([2.0, 3.0, 5.0][: len(pts)])
    for weights in (None, base_w, base_w * 1e-170, base_w * 1e160):
        xyz = ref.to_xyz(pts[:, 0], pts[:, 1])
        w = np.ones(len(pts)) if weights is None else weights
        mean = (xyz * w[:, None].astype(np.longdouble)).sum(axis=0) / w.sum()
        length = float(np.sqrt((mean**2).sum()))
        if length < 1e-6:
            continue  # degenerate mean direction: excluded by rule
        n += 1
        era, edec = ref.from_xyz(mean)
        try:
            got = AngularCoordinates(pts).mean(weights)
        except Exception as e:
            v.append(viol(f"C14/mean/exception:{type(e).__name__}", f"mean of {pts.tolist()} raised {yawx.exc_name(e)}"))
            continue
        s = float(ref.sep(era, edec, got.ra[0], got.dec[0]))
        # arccos-based RA: conditioning sqrt(eps) when the mean lies on the RA=0/pi meridian
        # (continuous bound: an error eps in x/r moves RA by eps/|sin RA|; 1e-7 is the sqrt(eps) floor on the meridian)
        on_meridian = abs(math.sin(float(era))) * math.cos(float(edec)) < 1e-3
        lim = 1e-7 if on_meridian else min(1e-7, (1e-14 + 4e-16 / abs(math.sin(float(era)))) / length)
        if not s <= lim:
            v.append(viol(f"C14/mean/inaccurate/{'meridian' if on_meridian else 'generic'}",
                          f"mean of {pts.tolist()} (weights {None if weights is None else weights.tolist()}) "
                          f"is {s:.3e} rad off ({got.data.tolist()})"))
        if not (0.0 <= got.ra[0] < 2 * PI):
            v.append(viol("C14/mean/ra-out-of-range", f"mean RA {got.ra[0]!r}"))
    return v, n > 0, n


def run_smallsets(case):
    """from_3d(to_3d(c)) and to_3d(from_3d(x)) for coordinate sets of exactly n points (array shapes (n, 2) / (n, 3))."""
    from yaw import AngularCoordinates

    n = case["n"]
    v, count = [], 0
    base = np.array([[0.3, 0.1], [1.2, -0.4], [4.0, 0.9], [5.9, -1.2], [2.2, 0.5], [3.3, -0.7], [0.9, 1.1]])
    for start in range(len(base) - n + 1):
        pts = base[start:start + n]
        count += 1
        try:
            xyz = np.array(AngularCoordinates(pts).to_3d())
            back = AngularCoordinates.from_3d(xyz)
        except Exception as e:
            v.append(viol(f"C14/smallsets/exception:{type(e).__name__}", f"{n} points: {yawx.exc_name(e)}"))
            continue
        want = np.column_stack([np.cos(pts[:, 0]) * np.cos(pts[:, 1]), np.sin(pts[:, 0]) * np.cos(pts[:, 1]), np.sin(pts[:, 1])])
        if xyz.shape != (n, 3) or not np.allclose(xyz, want, rtol=0, atol=1e-15):
            v.append(viol("C14/smallsets/to_3d", f"to_3d of {n} points has shape {xyz.shape} / wrong values"))
        elif len(back) != n or not np.allclose(back.data, pts, rtol=0, atol=1e-12):
            v.append(viol("C14/smallsets/from_3d", f"from_3d(to_3d(c)) != c for a set of exactly {n} points: "
                          f"{np.asarray(back.data).tolist()} vs {pts.tolist()}"))
    return v, True, count


def run_bigmean(case):
    from yaw import AngularCoordinates

    n = case["n"]
    i = np.arange(n, dtype=float)
    # a tight cluster for all but the last points, which sit far away
    ra = 0.5 + 1e-3 * ((i * 0.6180339887) % 1.0)
    dec = 0.2 + 1e-3 * ((i * 0.4142135623) % 1.0)
    ra[-3:], dec[-3:] = 2.5, -0.8
    pts = np.column_stack([ra, dec])
    v = []
    for weights in (None, np.where(np.arange(n) >= n - 3, 1.0e5, 1.0)):
        w = np.ones(n) if weights is None else weights
        xyz = np.column_stack([np.cos(ra) * np.cos(dec), np.sin(ra) * np.cos(dec), np.sin(dec)]).astype(np.longdouble)
        mean = (xyz * w[:, None]).sum(axis=0) / w.sum()
        era, edec = ref.from_xyz(mean)
        try:
            got = AngularCoordinates(pts).mean(weights)
        except Exception as e:
            v.append(viol(f"C14/mean/exception:{type(e).__name__}", f"mean of {n} points raised {yawx.exc_name(e)}"))
            continue
        sdist = float(ref.sep(era, edec, got.ra[0], got.dec[0]))
        if not sdist <= 1e-10:
            v.append(viol("C14/mean/inaccurate/many-points",
                          f"mean of {n} points ({'weighted' if weights is not None else 'unweighted'}) is {sdist:.3e} rad off"))
    return v, True, 2 * n


def run_history(case):
    from yaw import AngularCoordinates

    base = np.array([[0.3, 0.1], [1.2, -0.4], [4.0, 0.9], [5.9, -1.2]])
    other = AngularCoordinates(np.array([[2.0, 0.5]]))
    arr = base.copy()
    coords = AngularCoordinates(arr)

    def op(c, name):
        if name == "to_3d":
            return np.array(c.to_3d())
        if name == "distance":
            return np.array(c.distance(other).data)
        return np.array(c.mean().data)

    v = []
    try:
        op(coords, case["first"])
        new = base[::-1] * np.array([0.5, -0.7]) + np.array([0.1, 0.05])
        if case["edit"] == "buffer":
            arr[:] = new
        elif case["edit"] == "data":
            coords.data[:] = new
        else:
            coords[:2].data[:] = new[:2]
            coords[2:].data[:] = new[2:]
        current = np.array(coords.data)
        got = op(coords, case["second"])
        want = op(AngularCoordinates(current.copy()), case["second"])
    except Exception as e:
        return [viol(f"C14/history/exception:{type(e).__name__}", f"{case}: {yawx.exc_name(e)}")], True, 1
    if not np.array_equal(current, new):
        return [], False, 1  # the object does not share the edited memory: nothing to compare
    if not np.array_equal(got, want):
        v.append(viol(f"C14/history/stale/{case['second']}",
                      f"{case['second']} after {case['first']} and an in-place edit ({case['edit']}) answers for other "
                      f"coordinates than the object holds: {got.tolist()} != {want.tolist()}"))
    return v, True, 1


def run_case(case):
    fn = dict(pairs=run_pairs, antipodes=run_antipodes, roundtrip=run_roundtrip, chord=run_chord,
              mean=run_mean, from3d=run_from3d, bigmean=run_bigmean, history=run_history, smallsets=run_smallsets)[case["part"]]
    viols, nontrivial, n = fn(case)
    res = dict(nontrivial=bool(nontrivial), key=case, counters=dict(inputs_evaluated=n))
    if viols:
        uniq = {}
        for x in viols:
            uniq.setdefault(x["signature"], x)
        res.update(status="violation", violations=list(uniq.values()))
    return res
