"""C08 - a crash never leaves a cache that is silently wrong.

Engine E5 (fault enumeration with real kills): for every workload the ordered list of file-system
operations is recorded with strace; for every mutating operation k the workload is run again on the
restored prior disk state and killed by the kernel on entry to operation k (so exactly operations
1..k-1 reached the disk); the survivor directory is then used from another process.
"""

from __future__ import annotations

import concurrent.futures
import os
import re
import shutil

import numpy as np

from vlib import crashx, runner, yawx

PROPERTY = "C08"
LEVEL = "fault_enumeration"
FANOUT_CHUNK = 1
RULE = (
    "workloads {W1 create catalog (W1p: with two workers, crash points in the writer process; W1b: patches of 19 kB written in 12 chunks of 1.6 kB; W1P (thorough): the main process of a two-worker creation is killed at each of its own write calls and at every chunk request, its children are left alone for 2.5 s), W2 overwrite a catalog of other data (W2p: with two workers; the value returned by the surviving parent must be the complete new catalog), W3 open a catalog without meta.yml (metadata "
    "computed), W4 first build_trees, W5 rebuild for other edges of the same bin count (W5f: forced), W6 rebuild binned->unbinned, W7 "
    "CorrFunc.to_file over an older file, W8 CorrData.to_files over older files (W8d: under a path prefix with a dot in its last component), W9 Configuration.to_file over an older "
    "file} x every crash point = entry of every mutating file-system call (mkdir, creating/truncating openat, write, "
    "pwrite64, unlink, rmdir, rename, ftruncate) of the recorded workload (W1 | W2, W5, W7, W9 additionally with SIGINT instead of SIGKILL: death by KeyboardInterrupt with stack unwinding; W7L, W7nL (no file at the path before) | W1L, W2L, W5L, W9L, W7n: KeyboardInterrupt before every executed line of library code of the step), injected with strace "
    "inject=<call>:signal=KILL:when=<ordinal> under a -P path filter. Oracle (another process): each use of what survived "
    "either raises or behaves like the completed or the never-started step: catalog holds one of the complete record "
    "sets, measurements equal those on fresh caches, files read back as the old or the new object as a whole. "
    "Non-trivial: every crash point (each leaves a different prefix of the write history on disk). Distinct: (workload, k)."
)
ASSUMPTIONS = [
    "crash granularity is the system call: a write() is atomic, multi-call writes are split where the kernel saw them; "
    "no page-cache reordering or power-loss model (the statement speaks of the process dying)",
    "the killed run must die with SIGKILL on entry of exactly the recorded call (same name, same ordinal, same "
    "normalised arguments), otherwise the point is a harness error, never silently accepted",
    "sequential pipeline only (YAW_NUM_THREADS=1)",
]

QUICK = ("W1", "W2", "W5f", "W7", "W8", "W8d", "W2p", "W1b", "W7L", "W7nL")
ALL = ("W1", "W2", "W3", "W4", "W5", "W5f", "W6", "W7", "W8", "W9", "W1p", "W2p", "W1b", "W1P", "W7L", "W9L", "W1L", "W2L", "W5L", "W7n", "W7nL", "W8d")


def norm(text, base):
    t = text.replace(base, "<B>")
    t = re.sub(r"^\d+\s+", "", t)
    return t


def cases(tier, seed):
    root = os.path.join(runner.scratch_root(), "keep_c08")
    os.makedirs(root, exist_ok=True)
    wls = QUICK if tier == "quick" else ALL

    def rec(wl):
        scratch = os.path.join(root, wl)
        os.makedirs(scratch, exist_ok=True)
        base = os.path.join(scratch, "base")
        if wl.endswith("L"):  # KeyboardInterrupt before every executed line of library code of workload wl[:-1]
            rel, ops = crashx.record_lines(wl[:-1], base, scratch)
        elif wl == "W1P":  # the main process of a two-worker creation is killed, its children live on for a while
            rel, ops = crashx.record_parent(wl, base, scratch)
        else:
            rel, ops = crashx.record(wl, base, scratch)
        return wl, base, os.path.join(scratch, "snap"), rel, ops

    out = []
    with concurrent.futures.ThreadPoolExecutor(len(wls)) as ex:
        for wl, base, snap, rel, ops in ex.map(rec, wls):
            k = 0
            for op in ops:
                if not op["mutating"]:
                    continue
                k += 1
                if wl.endswith("p") and op["proc"] != ops[[o["mutating"] for o in ops].index(True)]["proc"]:
                    continue  # parallel creation: crash points in the writer process (the first to touch the cache)
                out.append(dict(workload=wl, k=k, name=op["name"], ordinal=op["ordinal"], proc=op["proc"],
                                text=norm(op["text"], base), rel_paths=rel, snap=snap,
                                total=sum(1 for o in ops if o["mutating"])))
                if wl in ("W1", "W2", "W5", "W7", "W7n", "W9") and (tier != "quick" or wl == "W1"):
                    # the same points with SIGINT: the interpreter dies by KeyboardInterrupt and unwinds its stack
                    out.append(dict(out[-1], signal="INT"))
    return out


def setup():
    yawx.sequential()
    import warnings

    warnings.simplefilter("ignore")
    np.seterr(all="ignore")


# ------------------------------------------------------------- observers ---

_fresh = {}


def fresh():
    """Reference objects from complete, uninterrupted runs (memoised per worker process)."""
    if _fresh:
        return _fresh
    import yaw
    from vlib import crash_wl as W

    d = runner.fresh_dir("keepc08ref")
    new, old, unk = W.frames()
    cn = W.make(d + "/new", new, chunksize=3)
    co = W.make(d + "/old", old)
    cu = W.make(d + "/unk", unk)
    _fresh["records"] = dict(new=records_of(cn), old=records_of(co),
                             big=records_of(W.make(d + "/big", W.big_frame(), chunksize=100)))
    # W3's completed step: metadata recomputed by Catalog(cache) after meta.yml went missing
    from yaw import Catalog

    c3 = W.make(d + "/w3", new, chunksize=3)
    for p in c3.values():
        os.remove(p.cache_path / "meta.yml")
    _fresh["meta"] = meta_of(Catalog(d + "/w3"))
    _fresh["unk"] = cu
    for name, cat in (("new", cn), ("old", co)):
        for bname, edges in (("B1", W.B1), ("B2", W.B2)):
            cfs = yaw.crosscorrelate(W.config(edges), cat, cu, unk_rand=cu)
            _fresh[("cross", name, bname)] = obs_cf(cfs)
    # swapped roles: 'old' as reference, 'new' as unknown (unbinned use of R)
    cfs = yaw.crosscorrelate(W.config(W.B1), co, cn, unk_rand=cn)
    _fresh[("swapped", "new", "B1")] = obs_cf(cfs)
    _fresh["old_ref"] = co
    for which in ("old", "new"):
        cf, cd, conf = W.products(which)
        p = runner.fresh_dir("keepc08prod")
        cf.to_file(p + "/cf.hdf")
        cd.to_files(p + "/cd")
        conf.to_file(p + "/conf.yml")
        _fresh[("cf", which)] = yaw.CorrFunc.from_file(p + "/cf.hdf")
        _fresh[("cd", which)] = yaw.CorrData.from_files(p + "/cd")
        _fresh[("conf", which)] = yaw.Configuration.from_file(p + "/conf.yml")
    return _fresh


def records_of(cat):
    out = {}
    for pid, p in cat.items():
        d = p.load_data()
        rows = sorted(tuple(float(x) for x in r) for r in d.tolist())
        out[int(pid)] = (tuple(d.dtype.names), rows)
    return out


def meta_of(cat):
    return {int(pid): (p.meta.num_records, p.meta.sum_weights, p.meta.center.data.tolist(), p.meta.radius.data.tolist())
            for pid, p in cat.items()}


def obs_cf(cfs):
    import hashlib

    h = hashlib.sha1()
    for cf in cfs:
        for kind in ("dd", "dr", "rd", "rr"):
            nc = getattr(cf, kind)
            if nc is not None:
                for a in (nc.counts.counts, nc.sum_weights.sum_weights1, nc.sum_weights.sum_weights2):
                    h.update(np.ascontiguousarray(a).tobytes())
    return h.hexdigest()[:16]


def observe(wl, base):
    """Returns list of (what, detail) problems found on the survivor directory."""
    import yaw
    from yaw import Catalog
    from vlib import crash_wl as W

    F = fresh()
    bad = []
    R = os.path.join(base, "R")
    if wl == "W1b":
        try:
            cat = Catalog(R)
            recs = records_of(cat)
        except Exception:
            return bad
        if recs != F["records"]["big"]:
            n = sum(len(r[1]) for r in recs.values())
            bad.append(("opens-with-incomplete-records",
                        f"Catalog(cache) opens with {len(recs)} patches / {n} records of the 1200 written in 12 chunks"))
        return bad
    if wl in ("W1", "W1p", "W1P", "W2", "W2p", "W3", "W4", "W5", "W5f", "W6"):
        try:
            cat = Catalog(R)
            recs = records_of(cat)
        except Exception:
            return bad  # the next use fails with an error: fine
        allowed = ["new"] + (["old"] if wl in ("W2", "W2p") else [])
        which = [a for a in allowed if recs == F["records"][a]]
        if not which:
            n = sum(len(r[1]) for r in recs.values())
            bad.append(("opens-with-incomplete-records",
                        f"Catalog(cache) opens with {len(recs)} patches / {n} records, which is neither the complete "
                        f"new nor a complete prior record set"))
            return bad
        which = which[0]
        try:
            meta = meta_of(cat)
            for pid, (names, rows) in recs.items():
                if meta[pid][0] != len(rows):
                    bad.append(("metadata-inconsistent", f"patch {pid}: metadata count {meta[pid][0]} != {len(rows)} records"))
            if which == "new" and wl == "W3" and meta != F["meta"]:
                bad.append(("metadata-wrong", f"metadata after the crash {meta} != {F['meta']}"))
        except Exception:
            return bad
        # measurements on what survived - each on its own copy of the survivor state, because a measurement
        # rebuilds trees and would repair the state for the next one
        for bname, edges in (("B1", W.B1), ("B2", W.B2)):
            copy = os.path.join(os.path.dirname(base), f"survivor_{bname}")
            shutil.copytree(base, copy, symlinks=True)
            try:
                cat = Catalog(os.path.join(copy, "R"))
                cfs = yaw.crosscorrelate(W.config(edges), cat, F["unk"], unk_rand=F["unk"])
            except Exception:
                continue
            if obs_cf(cfs) != F[("cross", which, bname)]:
                bad.append((f"measurement-differs-from-fresh/{bname}",
                            f"crosscorrelate with binning {bname} on the surviving cache differs from fresh caches"))
        if wl == "W6" and which == "new":
            try:
                copy = os.path.join(os.path.dirname(base), "survivor_swapped")
                shutil.copytree(base, copy, symlinks=True)
                cat2 = Catalog(os.path.join(copy, "R"))
                cfs = yaw.crosscorrelate(W.config(W.B1), F["old_ref"], cat2, unk_rand=cat2)
                if obs_cf(cfs) != F[("swapped", "new", "B1")]:
                    bad.append(("measurement-differs-from-fresh/unbinned-role",
                                "using the surviving cache as unknown (unbinned) sample differs from fresh caches"))
            except Exception:
                pass
        return bad
    if wl in ("W7", "W7n"):  # W7n: no file before the step, so only the new object (or no readable file) is acceptable
        try:
            got = yaw.CorrFunc.from_file(os.path.join(base, "cf.hdf"))
        except Exception:
            return bad
        if not ((wl == "W7" and got == F[("cf", "old")]) or got == F[("cf", "new")]):
            bad.append(("reads-back-neither-old-nor-new", "CorrFunc file reads back as neither the old nor the new object"))
    elif wl in ("W8", "W8d"):
        try:
            got = yaw.CorrData.from_files(os.path.join(base, "cd" if wl == "W8" else "nz_0.1"))
        except Exception:
            return bad
        if not (got == F[("cd", "old")] or got == F[("cd", "new")]):
            mixed = (np.array_equal(got.data, F[("cd", "new")].data) and np.array_equal(got.samples, F[("cd", "old")].samples))
            bad.append(("mixed-old-new" if mixed else "reads-back-neither-old-nor-new",
                        "CorrData files read back as a mixture: data of the new object with samples of the old one"
                        if mixed else "CorrData files read back as neither the old nor the new object"))
    elif wl == "W9":
        try:
            got = yaw.Configuration.from_file(os.path.join(base, "conf.yml"))
        except Exception:
            return bad
        same = [w for w in ("old", "new") if got.to_dict() == F[("conf", w)].to_dict()]
        if not same:
            bad.append(("reads-back-neither-old-nor-new", "configuration file reads back as neither the old nor the new one"))
    return bad


def window(text):
    """Crash window label: the call that was about to happen, with patch numbers and data generalised."""
    if text.startswith("line("):
        return "interrupt-between-two-lines"
    t = re.sub(r"patch_\d+", "patch_*", text)
    m = re.match(r"(\w+)\((?:AT_FDCWD<[^>]*>, )?(?:\d+<)?\"?(<B>[^\">,]*)", t)
    if not m:
        return t[:60]
    flags = re.search(r"(O_[A-Z_|]+)", t)
    return f"{m.group(1)}:{m.group(2).replace('<B>/', '')}" + (f":{flags.group(1)}" if flags and m.group(1) == "openat" else "")


def run_case(case):
    wl = case["workload"]
    d = runner.fresh_dir("c08")
    base = os.path.join(d, "base")
    if os.path.isdir(case.get("snap", "")):
        shutil.copytree(case["snap"], base, symlinks=True)
    else:  # replay in another process: rebuild the prior state
        crashx.setup(wl[:-1] if wl.endswith("L") else wl, base)
    op = dict(name=case["name"], ordinal=case["ordinal"], proc=case.get("proc", 0), text=case["text"])
    if wl.endswith("L"):
        res = crashx.inject_line(wl[:-1], base, op, d)
        if res["rc"] == 0 and not res["killed"]:
            return dict(status="skip", skip_rule="the interrupt was swallowed (raised inside a handler that ignores it), the workload completed")
        wl = wl[:-1]
    elif wl == "W1P":
        res = crashx.inject_parent(wl, base, op, d)
    else:
        res = crashx.inject(wl, base, case["rel_paths"], op, d, sig=case.get("signal", "KILL"))
    def args_of(t):
        a = t.split(" = ")[0].split("(", 1)[-1].rstrip(") ")[:80]
        if wl.lower().endswith("p"):  # parallel creation: which patch the writer serves k-th is up to the real scheduler;
            a = ""  # the crash point "k-th mutating call of the writer process" is compared by call name only
        return a

    if case.get("signal") == "INT" and not res["killed"] and res["rc"] == 0:
        # the interrupt arrived inside a C library call that swallows it (HDF5 callbacks): the workload ran to completion
        return dict(status="skip", skip_rule="SIGINT swallowed inside a C library call, the workload completed")
    if not res["matched"] or args_of(norm(res["tail"], base)) != args_of(case["text"]):
        raise RuntimeError(f"kill did not land on the recorded operation: wanted {case['text']}, got {res}")
    problems = observe(wl, base)
    m = re.search(r"^RETURNED (.*)$", res.get("stdout", ""), re.M)
    if m:
        # the creation call returned in a surviving process although the process writing the cache was killed:
        # what it returned must be the complete new catalog, anything else is stale or partial content used silently
        import json

        got = {int(k): [tuple(r) for r in v] for k, v in json.loads(m.group(1)).items()}
        want = {pid: rows for pid, (_, rows) in fresh()["records"]["new"].items()}
        if got != want:
            n = sum(len(v) for v in got.values())
            problems.append(("creation-returns-other-than-new-catalog",
                             f"the writer process was killed, the creation call nevertheless returned a catalog with {n} "
                             f"records that is not the complete new record set"))
    out = dict(nontrivial=True, key=[wl, case["k"], case.get("signal", "KILL")], counters=dict(kills=1),
               sample=dict(workload=wl, k=case["k"], of=case["total"], killed_before=case["text"][:120]))
    if problems:
        w = window(case["text"])
        out.update(status="violation", violations=[dict(
            signature=f"C08/{case['workload']}/{what}/before:{w}" + ("/SIGINT" if case.get("signal") == "INT" else ""),
            what=f"{wl}: process killed before operation {case['k']}/{case['total']} ({case['text'][:100]}): {detail}",
            detail=dict(case=case)) for what, detail in problems])
    return out
