"""C18 - input is consumed in bounded chunks, each record once per pass.

Engine E1 with monitored sources: a data-frame-like proxy, logging proxies around h5py.File,
pyarrow's ParquetFile and astropy's FITS HDU data, and a logging random generator.  Every
(length, chunk size, source, patch mode) is created through Catalog.from_* and the log of
requests is checked: consecutive, non-overlapping slices of at most chunksize rows, every row
once per pass, one extra pass only if patch centres are generated, never the whole input at once.
"""

from __future__ import annotations

import itertools
import os

import numpy as np

from vlib import runner, yawx

PROPERTY = "C18"
LEVEL = "exploration"
RULE = (
    "n in 1..12 x chunksize {1,2,3,5,n-1,n,n+1} x source {data-frame proxy, HDF5 proxy, Parquet proxy with row "
    "groups {1,2,4,n, unequal, 2 with empty groups in between}, FITS proxy, logging random generator} x patch mode {centres, id column, generated, id column "
    "+ patch_num (ignored), centres + patch_num (ignored)}. Oracle on the request log: per pass the requested "
    "slices are consecutive, disjoint, each <= chunksize rows, their union is [0,n) exactly once; passes == 1, or 2 "
    "iff centres are generated; no request covers more than chunksize rows when n > chunksize; Parquet: row groups "
    "in order, none twice per pass, buffered rows < chunksize + largest row group. Non-trivial: n > chunksize "
    "(more than one chunk). Generated centres also with a probe (20) smaller than the input (23, 25, 30 rows); the frame proxy exposes .index and logs whole-frame operations (reset_index, copy, ...). Frame source also on the virtual pool with W=2,3 (chunk sizes that are no multiple of W). Reader objects (frame, HDF5, FITS, Parquet) reused over passes: every history of <= 2 (3) of {peek, loop left after 2 chunks, full pass, probe} must be followed by a complete pass. Frame source without a chunk size (module default lowered to 4; n = 9, 13): requests stay within the default. HDF5 data sets with a chunked storage layout (blocks of 4) and FITS tables in the second extension (n in {6,9,11} x chunksize {1,2,3,5}). The logging proxies pass the rest of the wrapped interface through (descriptive attributes free, anything else counted as a whole-column request). Two readers of two sources alive side by side: every interleaving of their chunk requests, each delivers a pass over its own source. A redshift column next to the others (same passes). Distinct: the case tuple."
)
ASSUMPTIONS = [
    "requests are observed at the library's seam to the source object (slicing of the frame / dataset / FITS column, "
    "read_row_group, generator call); FITS column access itself is lazy (memory map) and not counted as a read",
]


def chunk_sizes(n):
    return sorted({c for c in (1, 2, 3, 5, n - 1, n, n + 1) if c >= 1})


def cases(tier, seed):
    out = []
    nmax = 9 if tier == "quick" else 12
    for n in range(1, nmax + 1):
        for cs in chunk_sizes(n):
            for mode in ("centres", "ids", "create", "ids+num", "centres+num"):
                if mode == "create" and n < 4:
                    continue
                for src in ("frame", "hdf", "fits", "pq1", "pq2", "pq4", "pqn", "pqu", "pqe"):
                    if tier == "quick" and src in ("pq1", "pq4") and mode not in ("centres", "create"):
                        continue
                    out.append(dict(n=n, chunksize=cs, source=src, mode=mode))
                if mode in ("centres",):
                    out.append(dict(n=n, chunksize=cs, source="random", mode=mode))
    if tier == "thorough":
        out.append(dict(n=150_001, chunksize=65_536, source="random", mode="create"))
    # generated centres with a probe smaller than the input (probe_size does not divide n): the probe pass is a pass
    # (probe sizes below 10 * patch_num are replaced by the default, which exceeds these inputs)
    for n, cs, src in itertools.product((23, 25, 30), (2, 3), ("frame", "hdf", "fits", "pq2")):
        out.append(dict(n=n, chunksize=cs, source=src, mode="create", probe_size=20))
        if cs == 3 or n == 23:
            out.append(dict(n=n, chunksize=cs, source=src, mode="create", probe_size=20, with_z=True))
    # a redshift column next to the other ones (one more column per request, the same passes)
    for n, cs, src, mode in itertools.product((5, 9), (2, 3), ("frame", "hdf", "fits", "pq2"), ("create", "centres", "ids")):
        out.append(dict(n=n, chunksize=cs, source=src, mode=mode, with_z=True))
    # HDF5 data sets stored in blocks of 4 records; a FITS file whose table is the second extension (the first one is a
    # table of another length)
    for n, cs, src, mode in itertools.product((6, 9, 11), (1, 2, 3, 5), ("hdfc", "fits2"), ("centres", "ids", "create")):
        out.append(dict(n=n, chunksize=cs, source=src, mode=mode))
    # no chunk size given: the default applies (lowered to 4 for these cases)
    for n, mode in itertools.product((9, 13), ("centres", "ids", "create")):
        out.append(dict(n=n, chunksize=None, default_chunksize=4, source="frame", mode=mode))
    # parallel creation (virtual pool, submission order): the slices requested from the source obey the same rules
    for n, cs, W, mode in itertools.product((7, 9), (2, 3, 4), (2, 3), ("centres", "ids", "create")):
        out.append(dict(n=n, chunksize=cs, source="frame", mode=mode, W=W))
    # one reader object used for several passes: an abandoned pass or a probe must not shift the next pass
    ops = ("peek", "break2", "pass", "probe")
    for src, (n, cs) in itertools.product(("frame", "hdf", "fits", "pq2", "pqu", "pqe"), ((5, 2), (7, 3), (4, 4))):
        for hl in range(0, 3 if tier == "quick" else 4):
            for hist in itertools.product(ops, repeat=hl):
                out.append(dict(part="reader", source=src, n=n, chunksize=cs, hist=list(hist)))
    # two readers of two sources alive at the same time: every interleaving of their chunk requests
    for src, (na, nb, cs) in itertools.product(("frame", "hdf", "fits", "pq2", "pqu"), ((5, 4, 2), (7, 5, 3))):
        steps_a, steps_b = -(-na // cs), -(-nb // cs)
        for pos in itertools.combinations(range(steps_a + steps_b), steps_a):
            out.append(dict(part="reader2", source=src, na=na, nb=nb, chunksize=cs,
                            order="".join("a" if i in pos else "b" for i in range(steps_a + steps_b))))
    return out


def setup():
    yawx.sequential()
    import warnings

    warnings.simplefilter("ignore")


CENTRES = np.array([[10.0, 0.0], [30.0, 0.0]])


def columns(n):
    i = np.arange(n)
    return dict(ra=10.0 + 20.0 * (i % 2) + 0.5 * (i // 2), dec=0.25 * (i // 2), w=1.0 + i / 16.0,
                pid=(i % 2).astype("i8"), z=0.1 + i / 64.0)


class Log(list):
    def req(self, kind, start, stop, n):
        self.append((kind, int(start), int(min(stop, n))))


class LogFrame:
    """Data-frame-like object: len(), [slice] -> real sub-frame, [column] -> whole column (logged)."""

    def __init__(self, df, log):
        self.df, self.log = df, log

    def __len__(self):
        return len(self.df)

    def __getitem__(self, key):
        n = len(self.df)
        if isinstance(key, slice):
            start, stop, _ = key.indices(n)
            self.log.req("rows", start, max(start, stop), n)
            return self.df.iloc[key]
        self.log.req("whole-column", 0, n, n)
        return self.df[key]

    @property
    def iloc(self):
        return self  # positional slicing is what __getitem__ logs

    @property
    def index(self):
        return self.df.index  # labels only, no records

    @property
    def columns(self):
        return self.df.columns

    def _whole(self, name):
        def method(*a, **k):  # any operation producing a derived frame touches every record at once
            n = len(self.df)
            self.log.req("whole-column", 0, n, n)
            return LogFrame(getattr(self.df, name)(*a, **k), self.log)
        return method

    def __getattr__(self, name):
        if name in ("reset_index", "copy", "sort_index", "reindex", "to_numpy", "to_records", "astype", "dropna"):
            return self._whole(name)
        raise AttributeError(name)

    @property
    def loc(self):
        outer = self

        class _Loc:  # label based access: translate to the positions actually delivered
            def __getitem__(self, key):
                sub = outer.df.loc[key]
                pos = np.nonzero(outer.df.index.isin(sub.index))[0]
                if len(pos):
                    outer.log.req("rows", pos[0], pos[-1] + 1, len(outer.df))
                return sub

        return _Loc()


class LogDataset:
    def __init__(self, ds, log):
        self.ds, self.log = ds, log

    def __len__(self):
        return len(self.ds)

    @property
    def shape(self):
        return self.ds.shape

    _METADATA = ("dtype", "size", "ndim", "name", "nbytes", "attrs", "chunks", "maxshape", "len", "compression", "fillvalue")

    def __getattr__(self, name):
        # descriptive attributes cost no records; anything else of the data set's interface is counted as a request for
        # the whole column (conservative) and passed on, so that code using it is judged by what it reads
        if name.startswith("__"):
            raise AttributeError(name)
        if name not in self._METADATA:
            self.log.req("whole-column", 0, len(self.ds), len(self.ds))
        return getattr(self.ds, name)

    def __getitem__(self, key):
        n = len(self.ds)
        if isinstance(key, slice):
            start, stop, _ = key.indices(n)
            self.log.req("rows", start, max(start, stop), n)
        else:
            self.log.req("whole-column", 0, n, n)
        return self.ds[key]


def check_log(log, n, cs, expect_passes, v, tag, column_count):
    """Group requests per column-set pass and check the slice discipline."""
    whole = [r for r in log if r[0] == "whole-column"]
    if whole and n > cs:
        v.append(dict(signature=f"C18/{tag}/whole-input-requested",
                      what=f"a step requested the whole input ({n} rows) at once although chunksize is {cs}"))
        return
    rows = [(a, b) for k, a, b in log if k == "rows"]
    # every column is sliced separately for hdf/fits: collapse identical consecutive requests
    collapsed = []
    i = 0
    while i < len(rows):
        j = i
        while j + 1 < len(rows) and rows[j + 1] == rows[i] and (j + 1 - i) < column_count:
            j += 1
        collapsed.append(rows[i])
        i = j + 1
    passes, cur = [], []
    for a, b in collapsed:
        if cur and a == 0 and cur[-1][1] >= 0 and (a < cur[-1][1] or cur[-1][1] >= n):
            passes.append(cur)
            cur = []
        cur.append((a, b))
    if cur:
        passes.append(cur)
    if len(passes) != expect_passes:
        v.append(dict(signature=f"C18/{tag}/passes",
                      what=f"{len(passes)} passes over the source, expected {expect_passes} (n={n}, chunksize={cs}): "
                           f"requests {collapsed}"))
        return
    for p in passes:
        pos = 0
        for a, b in p:
            if a != pos:
                kind = "overlap" if a < pos else "gap"
                v.append(dict(signature=f"C18/{tag}/{kind}",
                              what=f"requests not consecutive ({kind} at row {pos}): {p} (n={n}, chunksize={cs})"))
                return
            if b - a > cs:
                v.append(dict(signature=f"C18/{tag}/oversized-request",
                              what=f"request of {b - a} rows exceeds chunksize {cs}: {p}"))
                return
            pos = b
        if pos != n:
            v.append(dict(signature=f"C18/{tag}/rows-never-requested",
                          what=f"rows {pos}..{n - 1} are never requested: {p} (n={n}, chunksize={cs})"))
            return


def run_reader(case):
    import pandas as pd
    from yaw.catalog import readers as R

    n, cs, src = case["n"], case["chunksize"], case["source"]
    cols = columns(n)
    d = runner.fresh_dir("c18r")
    kw = dict(ra_name="ra", dec_name="dec", weight_name="w", patch_name="pid", chunksize=cs)

    path = None if src == "frame" else write_file(src, cols, d, n)

    def new():
        if src == "frame":
            return R.DataFrameReader(pd.DataFrame(cols), **kw)
        return R.new_filereader(path, **kw)

    def full(reader):
        chunks = [np.asarray(c) for c in reader]
        return np.concatenate(chunks) if chunks else np.empty(0)

    v = []
    try:
        with new() as fresh_reader:
            want = full(fresh_reader)
        with new() as reader:
            for op in case["hist"]:
                if op == "peek":
                    next(iter(reader))
                elif op == "break2":
                    for i, _ in enumerate(reader):
                        if i == 1:
                            break
                elif op == "pass":
                    full(reader)
                else:
                    reader.get_probe(2)
            got = full(reader)
    except Exception as e:
        return dict(nontrivial=True, key=case, status="violation", violations=[dict(
            signature=f"C18/reader/exception:{type(e).__name__}", what=f"reader raised {yawx.exc_name(e)} ({case})")])
    tag = "parquet" if src.startswith("pq") else src.rstrip("c2")
    if len(want) != n:
        v.append(dict(signature=f"C18/reader/{tag}/first-pass", what=f"a pass over a fresh reader delivers {len(want)} of {n} records"))
    elif len(got) != n or not np.array_equal(got, want):
        v.append(dict(signature=f"C18/reader/{tag}/pass-after-history",
                      what=f"after {case['hist']} on the same reader the next pass delivers {len(got)} records "
                           f"(of {n}) that are not the records of a complete pass"))
    res = dict(nontrivial=bool(case["hist"]), key=case)
    if v:
        res.update(status="violation", violations=v)
    return res


def run_reader2(case):
    import pandas as pd
    from yaw.catalog import readers as R

    cs, src = case["chunksize"], case["source"]
    kw = dict(ra_name="ra", dec_name="dec", weight_name="w", patch_name="pid", chunksize=cs)
    d = runner.fresh_dir("c18t")
    data, paths = {}, {}
    for name, n in (("a", case["na"]), ("b", case["nb"])):
        cols = columns(n)
        if name == "b":
            cols["ra"] = cols["ra"] + 100.0  # other records than those of source a
        data[name] = cols
        os.makedirs(os.path.join(d, name))
        paths[name] = None if src == "frame" else write_file(src, cols, os.path.join(d, name), n)

    def new(name):
        if src == "frame":
            return R.DataFrameReader(pd.DataFrame(data[name]), **kw)
        return R.new_filereader(paths[name], **kw)

    v = []
    try:
        want = {}
        for name in "ab":
            with new(name) as r:
                want[name] = np.concatenate([np.asarray(c) for c in r])
        with new("a") as ra_, new("b") as rb_:
            its, got = {}, dict(a=[], b=[])
            for name in case["order"]:
                if name not in its:
                    its[name] = iter(dict(a=ra_, b=rb_)[name])
                got[name].append(np.asarray(next(its[name])))
            ended = {}
            for name in "ab":
                try:
                    next(its[name])
                    ended[name] = False
                except StopIteration:
                    ended[name] = True
    except Exception as e:
        return dict(nontrivial=True, key=case, status="violation", violations=[dict(
            signature=f"C18/reader2/exception:{type(e).__name__}", what=f"two readers side by side raised {yawx.exc_name(e)} ({case})")])
    tag = "parquet" if src.startswith("pq") else src.rstrip("c2")
    for name in "ab":
        g = np.concatenate(got[name])
        if not ended[name] or len(g) != len(want[name]) or not np.array_equal(g, want[name]):
            v.append(dict(signature=f"C18/reader2/{tag}/interleaved-pass",
                          what=f"two readers used side by side (chunk order {case['order']}): reader {name} delivers {len(g)} records "
                               f"(own source: {len(want[name])}) that are not the records of a pass over its own source"))
    res = dict(nontrivial=True, key=case)
    if v:
        res.update(status="violation", violations=v[:1])
    return res


def run_case(case):
    if case.get("part") == "reader":
        return run_reader(case)
    if case.get("part") == "reader2":
        return run_reader2(case)
    import pandas as pd
    from yaw import AngularCoordinates, Catalog
    from yaw.catalog import catalog as C
    from yaw.catalog import readers as R

    n, cs, src, mode = case["n"], case["chunksize"], case["source"], case["mode"]
    default_before = R.CHUNKSIZE
    if case.get("default_chunksize"):
        R.CHUNKSIZE = case["default_chunksize"]
        restore_default = lambda: setattr(R, "CHUNKSIZE", default_before)  # noqa: E731
    else:
        restore_default = lambda: None  # noqa: E731
    cols = columns(n)
    d = runner.fresh_dir("c18")
    log = Log()
    kw = dict(ra_name="ra", dec_name="dec", weight_name="w", chunksize=cs)
    ncols = 3
    if case.get("with_z"):
        kw["redshift_name"] = "z"
        ncols = 4
    if mode.startswith("centres"):
        kw["patch_centers"] = AngularCoordinates(np.deg2rad(CENTRES[: min(2, n)]))
    if mode.startswith("ids"):
        kw["patch_name"] = "pid"
        ncols += 1
    if mode == "create" or mode.endswith("+num"):
        kw.update(patch_num=2, probe_size=case.get("probe_size", 20))
    expect_passes = 2 if mode == "create" else 1
    v = []
    delivered = []
    orig_split = C.split_into_patches

    def split_logged(chunk, centers):
        delivered.append(len(chunk))
        log.append(("delivered", len(chunk), 0))
        return orig_split(chunk, centers)

    C.split_into_patches = split_logged
    restore = []
    try:
        if src == "frame":
            if not mode.startswith("ids"):
                cols.pop("pid")
            df = pd.DataFrame(cols)
            df.index = np.arange(len(df)) * 3 + 5  # as left behind by df[mask]: labels are not positions
            if case.get("W"):
                from vlib import vmp

                vmp.install(workers=case["W"])
                try:
                    ex = vmp.execute(lambda: Catalog.from_dataframe(d + "/cat", LogFrame(df, log), **kw))
                finally:
                    vmp.uninstall()
                    yawx.sequential()
                if ex["verdict"] != "ok":
                    raise RuntimeError(f"virtual pool: {ex['verdict']} {ex['deadlock']}")
                if ex["exc"] is not None:
                    raise ex["exc"]
                cat = ex["value"]
            else:
                cat = Catalog.from_dataframe(d + "/cat", LogFrame(df, log), **kw)
        elif src == "random":
            from yaw.randoms import BoxRandoms

            class LogRandoms(BoxRandoms):
                def __call__(self, size):
                    done = sum(b - a for k, a, b in log if k == "rows")
                    base = done % n if done else 0
                    log.req("rows", base, base + size, 10**12)
                    return super().__call__(size)

            gen = LogRandoms(5.0, 35.0, -2.0, 4.0, seed=3, weights=cols["w"])
            rk = dict(chunksize=cs)
            if mode == "create":
                rk.update(patch_num=2)
            else:
                rk.update(patch_centers=kw["patch_centers"])
            cat = Catalog.from_random(d + "/cat", gen, n, **rk)
        else:
            path = write_file(src, cols, d, n)
            if src in ("hdf", "hdfc"):
                import h5py

                real = h5py.File

                class LogFile:
                    def __init__(self, *a, **k):
                        self.f = real(*a, **k)

                    def __getitem__(self, name):
                        return LogDataset(self.f[name], log)

                    def __contains__(self, name):
                        return name in self.f

                    def __iter__(self):
                        return iter(self.f)

                    def __enter__(self):
                        return self

                    def __exit__(self, *a):
                        self.f.close()

                    def __getattr__(self, name):  # keys(), attrs, filename, ...
                        return getattr(self.f, name)

                    def close(self):
                        self.f.close()

                R.h5py.File = LogFile
                restore.append(lambda: setattr(R.h5py, "File", real))
            elif src in ("fits", "fits2"):
                if src == "fits2":
                    kw["hdu"] = 2
                real_open = R.fits.open

                class LogRec:
                    def __init__(self, data):
                        self.data = data

                    def __len__(self):
                        return len(self.data)

                    def __getattr__(self, name):  # names, dtype, columns, shape: descriptive
                        if name.startswith("__"):
                            raise AttributeError(name)
                        return getattr(self.data, name)

                    def __getitem__(self, name):
                        return LogDataset(self.data[name], log)

                class LogHDU:
                    def __init__(self, hdu):
                        self.hdu = hdu
                        self.data = LogRec(hdu.data)

                    def __getattr__(self, name):  # header, columns, name, ...
                        if name.startswith("__"):
                            raise AttributeError(name)
                        return getattr(self.hdu, name)

                class LogHDUList:
                    def __init__(self, hl):
                        self.hl = hl

                    def __getitem__(self, i):
                        return LogHDU(self.hl[i])

                    def __len__(self):
                        return len(self.hl)

                    def __enter__(self):
                        return self

                    def __exit__(self, *a):
                        self.hl.close()

                    def __getattr__(self, name):  # info(), filename(), ...
                        if name.startswith("__"):
                            raise AttributeError(name)
                        return getattr(self.hl, name)

                    def close(self):
                        self.hl.close()

                R.fits.open = lambda *a, **k: LogHDUList(real_open(*a, **k))
                restore.append(lambda: setattr(R.fits, "open", real_open))
            else:
                realpf = R.parquet.ParquetFile

                class LogPF:
                    def __init__(self, *a, **k):
                        self.pf = realpf(*a, **k)
                        self.metadata = self.pf.metadata
                        self.num_row_groups = self.pf.num_row_groups

                    def __getattr__(self, name):  # anything else of the file's interface
                        return getattr(self.pf, name)

                    def read_row_group(self, i, columns=None):
                        t = self.pf.read_row_group(i, columns)  # raises past the last group
                        log.append(("group", int(i), len(t)))
                        return t

                    def close(self):
                        self.pf.close()

                R.parquet.ParquetFile = LogPF
                restore.append(lambda: setattr(R.parquet, "ParquetFile", realpf))
            cat = Catalog.from_file(d + "/cat", path, **kw)
    except Exception as e:
        C.split_into_patches = orig_split
        for r in restore:
            r()
        if src == "random" and "contains no data" in str(e):
            return dict(status="skip", skip_rule="random points leave a centre empty (creation refuses, C09)")
        return dict(nontrivial=True, key=case, status="violation", violations=[dict(
            signature=f"C18/{src}/exception:{type(e).__name__}", what=f"creation raised {yawx.exc_name(e)} ({case})")])
    finally:
        C.split_into_patches = orig_split
        for r in restore:
            r()
        restore_default()
    if cs is None:  # the module default (lowered for this case) is the configured chunk size
        cs = case["default_chunksize"]
    tag = "parquet" if src.startswith("pq") else src.rstrip("c2")
    total = sum(cat.get_num_records())
    if total != n:
        v.append(dict(signature=f"C18/{tag}/records", what=f"{total} records stored of {n}"))
    if any(c > cs for c in delivered) and n > cs:
        v.append(dict(signature=f"C18/{tag}/oversized-chunk", what=f"a chunk of {max(delivered)} rows was processed, chunksize {cs}"))
    if src.startswith("pq"):
        check_parquet(log, n, cs, expect_passes, v, case)
    elif src == "random":
        sizes = [b - a for k, a, b in log if k == "rows"]
        main = sizes[-(len(delivered)):] if delivered else []
        if sum(main) != n or any(s > cs for s in main):
            v.append(dict(signature="C18/random/chunking", what=f"generator called with sizes {sizes} for n={n}, chunksize={cs}"))
        extra = len(sizes) - len(main)
        if extra != (1 if mode == "create" else 0):
            v.append(dict(signature="C18/random/passes", what=f"{extra} extra generator calls (mode {mode}): {sizes}"))
    else:
        check_log([r for r in log if r[0] != "delivered"], n, cs, expect_passes, v, tag,
                  1 if src == "frame" else ncols)
    res = dict(nontrivial=bool(n > cs), key=case)
    if v:
        res.update(status="violation", violations=v[:2])
    return res


def write_file(src, cols, d, n):
    if src in ("hdf", "hdfc"):
        import h5py

        p = os.path.join(d, "in.hdf5")
        with h5py.File(p, "w") as f:
            for k, val in cols.items():
                # hdfc: chunked storage layout (blocks of 4 records), as written by most survey pipelines
                f.create_dataset(k, data=val, **(dict(chunks=(min(4, n),)) if src == "hdfc" else {}))
    elif src in ("fits", "fits2"):
        from astropy.io import fits as afits
        from astropy.table import Table

        p = os.path.join(d, "in.fits")
        if src == "fits":
            Table(cols).write(p)
        else:  # the table is the second extension, the first one is another table of another length
            other = Table({k: np.concatenate([val, val])[: n + 3] for k, val in cols.items()})
            afits.HDUList([afits.PrimaryHDU(), afits.table_to_hdu(other), afits.table_to_hdu(Table(cols))]).writeto(p)
    else:
        import pyarrow as pa
        from pyarrow import parquet

        p = os.path.join(d, "in.parquet")
        if src in ("pqu", "pqe"):
            # pqu: unequal row groups, the first one the largest (files written by appending tables)
            # pqe: row groups of 2 records with an empty group after each but the last (writers that flush empty batches)
            sizes, left = [], n
            first = max(1, (n + 1) // 2)
            while left > 0:
                if src == "pqu":
                    sizes.append(min(first if not sizes else 1 + len(sizes) % 2, left))
                else:
                    sizes.append(min(2, left))
                left -= sizes[-1]
                if src == "pqe" and left > 0:
                    sizes.append(0)
            tab = pa.table(cols)
            with parquet.ParquetWriter(p, tab.schema) as wr:
                start = 0
                for sz in sizes:
                    wr.write_table(tab.slice(start, sz), **(dict(row_group_size=sz) if sz else {}))
                    start += sz
        else:
            rg = dict(pq1=1, pq2=2, pq4=4, pqn=max(n, 1))[src]
            parquet.write_table(pa.table(cols), p, row_group_size=rg)
    return p


def check_parquet(log, n, cs, expect_passes, v, case):
    groups = [(i, size) for k, i, size in log if k == "group"]
    passes, cur = [], []
    for i, size in groups:
        if cur and i == 0:
            passes.append(cur)
            cur = []
        cur.append((i, size))
    if cur:
        passes.append(cur)
    if len(passes) != expect_passes:
        v.append(dict(signature="C18/parquet/passes", what=f"{len(passes)} passes over the row groups, expected "
                      f"{expect_passes}: {groups} ({case})"))
        return
    for p in passes:
        idx = [i for i, _ in p]
        if idx != list(range(len(idx))):
            v.append(dict(signature="C18/parquet/group-order", what=f"row groups requested as {idx} ({case})"))
            return
        if sum(s for _, s in p) != n:
            v.append(dict(signature="C18/parquet/rows", what=f"row groups cover {sum(s for _, s in p)} of {n} rows ({case})"))
            return
    # buffered rows: rows read minus rows delivered at the time of each read (last pass = creation pass)
    read = done = 0
    largest = max((s for _, s in groups), default=0)
    npass = 0
    for k, a, b in log:
        if k == "group":
            if a == 0:
                npass += 1
                read = done = 0
            read += b
            if npass == expect_passes and read - done >= cs + largest:
                v.append(dict(signature="C18/parquet/buffer", what=f"{read - done} rows buffered with chunksize {cs} "
                              f"and largest row group {largest} ({case})"))
                return
        elif k == "delivered":
            done += a
