"""C05 - results do not depend on worker count or completion order (multiprocessing).

Engine E3a (model checking): the library's Pool.imap_unordered is replaced by a virtual pool whose
completion order is chosen by an explorer.  For every parallel entry point on fixed caches and every
worker count, every feasible completion order of every pool is executed on the real implementation
(stateless enumeration for small pools, explicit-state search with merging on the consumer's
accumulator fingerprint for large ones) and the result is compared bit for bit with the W=1 run.
"""

from __future__ import annotations

import hashlib
import itertools
import json
import os
import pickle
import shutil
import subprocess
import sys

import numpy as np

from vlib import runner, vmp, worlds, yawx

PROPERTY = "C05"
LEVEL = "model_checking"
RULE = (
    "entry points {Catalog(cache), build_trees (binned, unbinned, forced with leafsize=3), HistData.from_catalog, autocorrelate, "
    "crosscorrelate} x patches {2,3|4; also 1 (single task) and 9 (= 4*2+1 tasks, two workers)} x workers {2,3,T+2} x for each pool of the call every feasible completion "
    "order (task t may complete at position j iff t < j+W; other pools in submission order - sound because every "
    "pool's output is part of the compared observation, see DESIGN.md E3a). Pools with <= 5 tasks: stateless "
    "enumeration of all orders; larger: explicit-state search, state = (consumed task set, hash of the consumer "
    "frame's picklable locals). Plus: all pools jointly with <= 2 deviations from submission order; a timed wait on the pool iterator (next(timeout)) may time out (<= 2 per pool) as a further deviation; catalogs of 1, 9 and 12 patches (two-digit ids). Plus (boundary): pickle round trips of Configuration / BinningConfig / Binning / ScalesConfig for method {linear, comoving, logspace, custom} x closed x cosmology {Planck15, WMAP9, instance, custom} x unit {deg, kpc} mean the same afterwards. Before the runs a caller edits, in place, every array obtained from Patch.redshifts / Patch.weights (results must not move). Real-pool sequences also with relative cache paths and a chdir to a directory with other catalogs in between, and with physical scales under two unnamed cosmologies of one class. Oracle: "
    "observation bit-identical to the sequential (W=1, no pool) run. Inputs have pairwise different per-patch "
    "contents (asserted). Non-trivial: a pool with >= 2 tasks and an order differing from submission order ran."
)
ASSUMPTIONS = [
    "decided on the virtual pool (vlib/vmp.py): tasks are handed out in submission order to W workers, results "
    "arrive in any order compatible with that; task functions run in-process in submission order (they write "
    "disjoint per-patch files); arguments and results cross the boundary pickled",
    "process_patch_pair and _redshift_histogram results are memoised across executions of one case (pure "
    "functions of their pickled argument and of the fixed caches)",
    "conformance: the same entry points run free on the real multiprocessing.Pool (W=2,4) and must produce an "
    "observation that the virtual exploration produced as well; a mismatch there is a harness error",
]

EDGES = [0.1, 0.2, 0.3, 0.4]
ENTRIES = ("load", "trees-binned", "trees-unbinned", "trees-options", "hist", "auto", "cross")
NPOOLS = {"load": 1, "trees-binned": 1, "trees-unbinned": 1, "trees-options": 2, "hist": 1, "auto": 5, "cross": 8}


def cases(tier, seed):
    out = []
    nps = (2, 3) if tier == "quick" else (2, 3, 4)
    for entry, npatch in itertools.product(ENTRIES, nps):
        T = npatch
        Ws = [2, 3, T + 2] if tier == "quick" else [2, 3, 5, T * T + 2]
        for W in sorted(set(Ws)):
            for focus in list(range(NPOOLS[entry])) + ["joint"]:
                if NPOOLS[entry] == 1 and focus == "joint":
                    continue
                out.append(dict(entry=entry, npatch=npatch, W=W, focus=focus, closed="right", seed=seed))
                if entry not in ("load", "trees-unbinned") and (tier != "quick" or W == 2):
                    # closed="left" with redshifts exactly on bin edges: the binning crosses the process
                    # boundary (pickled) and must mean the same on the other side
                    out.append(dict(entry=entry, npatch=npatch, W=W, focus=focus, closed="left", seed=seed))
    # task counts at the edges of any batching of the job list: a single task (one patch, more workers than
    # tasks) and 9 = 4*2+1 tasks with two workers
    for entry in ENTRIES:
        for W in (2, 3):
            for focus in range(NPOOLS[entry]):
                out.append(dict(entry=entry, npatch=1, W=W, focus=focus, closed="right", seed=seed))
    for entry in ("load", "hist", "trees-binned") if tier == "quick" else ENTRIES:
        for focus in range(NPOOLS[entry]):
            out.append(dict(entry=entry, npatch=9, W=2, focus=focus, closed="right", seed=seed))
    # patch ids with two digits
    out.append(dict(entry="load", npatch=12, W=2, focus=0, closed="right", seed=seed))
    out.append(dict(entry="hist", npatch=12, W=2, focus=0, closed="right", seed=seed))
    # what is handed to the workers (pickled) must mean the same on the other side
    for method, closed, cosmo, unit in itertools.product(("linear", "comoving", "logspace", "custom"), ("right", "left"),
                                                       ("Planck15", "WMAP9", "inst:WMAP7", "custom"), ("deg", "kpc")):
        out.append(dict(entry="boundary", method=method, closed=closed, cosmology=cosmo, unit=unit, seed=seed))
    # real pools, one process: every sequence of two measurements over binnings {A,B} x workers {1,2}; the second
    # result must equal the same measurement made alone and sequentially (separate-process memory is not part of
    # the virtual pool's model, so this part runs free on the real multiprocessing module)
    for (b1, w1), (b2, w2) in itertools.product(itertools.product("AB", (1, 2)), repeat=2):
        out.append(dict(entry="realpool-seq", scenario=[[b1, w1], [b2, w2]], seed=seed))
    # the same with relative cache paths and a change of the working directory in between (other catalogs under
    # the same relative names): workers must see the parent's current state
    for w1, w2 in itertools.product((1, 2), repeat=2):
        out.append(dict(entry="realpool-seq", scenario=[["A", w1, "a"], ["A", w2, "b"]], seed=seed))
        # physical scales with two unnamed cosmologies of one class, one after the other
        out.append(dict(entry="realpool-seq", scenario=[["A", w1, "a", "custom"], ["A", w2, "a", "custom-sibling"]], seed=seed))
    return out


def run_boundary(case):
    """Pickle round trip (the process boundary of multiprocessing and MPI) of a configuration and its parts."""
    import yaw
    from checks import c15

    kw = dict(rmin=[100.0, 300.0] if case["unit"] == "kpc" else [0.1, 0.3], rmax=[900.0, 2500.0] if case["unit"] == "kpc" else [0.9, 2.5],
              unit=case["unit"], closed=case["closed"], cosmology=c15.cosmo_obj(case["cosmology"]), rweight=-0.5, resolution=7)
    if case["method"] == "custom":
        kw["edges"] = [0.1, 0.2, 0.35, 0.6]
    else:
        kw.update(zmin=0.07, zmax=1.3, num_bins=4, method=case["method"])
    conf = yaw.Configuration.create(**kw)
    viols = []

    def same(a, b, what):
        ea, eb = c15.describe(a), c15.describe(b)
        diff = c15.same_meaning(ea, eb, tol=0.0)
        if diff is not None:
            viols.append(dict(signature=f"C05/boundary/{what}-differs:{diff}/{case['method']}",
                              what=f"a pickled {what} means something else on the other side of the process boundary: {diff} "
                                   f"{ea[diff]} -> {eb[diff]} ({case})"))

    try:
        back = pickle.loads(pickle.dumps(conf))
        same(conf, back, "Configuration")
        if not (back == conf):
            viols.append(dict(signature="C05/boundary/Configuration-unequal", what=f"unpickled Configuration != original ({case})"))
        bconf = pickle.loads(pickle.dumps(conf.binning))
        if not np.array_equal(bconf.edges, conf.binning.edges) or str(bconf.closed) != str(conf.binning.closed):
            viols.append(dict(signature=f"C05/boundary/BinningConfig-differs/{case['method']}",
                              what=f"unpickled BinningConfig has edges {np.asarray(bconf.edges).tolist()} / {bconf.closed}, "
                                   f"original {conf.binning.edges.tolist()} / {conf.binning.closed} ({case})"))
        b = pickle.loads(pickle.dumps(conf.binning.binning))
        if not np.array_equal(b.edges, conf.binning.edges) or str(b.closed) != case["closed"]:
            viols.append(dict(signature="C05/boundary/Binning-differs", what=f"unpickled Binning differs ({case})"))
        sc = pickle.loads(pickle.dumps(conf.scales))
        if not (sc == conf.scales):
            viols.append(dict(signature="C05/boundary/ScalesConfig-unequal", what=f"unpickled ScalesConfig != original ({case})"))
    except Exception as e:
        viols.append(dict(signature=f"C05/boundary/exception:{type(e).__name__}", what=f"{case}: {yawx.exc_name(e)}"))
    res = dict(nontrivial=True, key=case, counters=dict(executions=1, states=1, transitions=1))
    if viols:
        res.update(status="violation", violations=viols[:3])
    return res


def run_realpool_seq(case):
    script = os.path.join(os.path.dirname(os.path.dirname(os.path.abspath(__file__))), "vlib", "realmp_conf.py")

    def run(scenario):
        p = subprocess.run([sys.executable, script, "c05seq", str(case["seed"]), json.dumps(scenario)],
                           capture_output=True, text=True)
        try:
            return json.loads(p.stdout.strip().splitlines()[-1])["digest"]
        except Exception:
            return "FAILED " + (p.stderr.strip().splitlines() or ["?"])[-1][:200]

    got = run(case["scenario"])
    want = run([[case["scenario"][-1][0], 1] + case["scenario"][-1][2:]])
    res = dict(nontrivial=case["scenario"][0] != case["scenario"][1], key=case, counters=dict(executions=2, states=2, transitions=2))
    if got != want:
        res.update(status="violation", violations=[dict(
            signature="C05/realpool-seq/" + ("exception" if got.startswith("FAILED") else "result-differs"),
            what=f"on the real multiprocessing pool the sequence {case['scenario']} (binning, workers) ends with a "
                 f"result that differs from the last measurement made alone with one worker ({got[:80]})")])
    return res


def setup():
    yawx.sequential()
    import warnings

    warnings.simplefilter("ignore")
    np.seterr(all="ignore")


# ------------------------------------------------------------------ fixtures ---


def make_caches(root, npatch, seed):
    """Three catalogs (reference with z, unknown, randoms with z) with pairwise different patches."""
    mids = [0.15, 0.2, 0.35, 0.3, 0.25]  # includes values exactly on the inner edges 0.2 and 0.3
    prime = (q for q in itertools.count(2) if all(q % r for r in range(2, int(q ** 0.5) + 1)))

    def o(k, off, z, row=0):
        # weights are not dyadic: a sum taken in another order differs in the last bits
        return dict(ra=k * worlds.D + off + worlds.jitter(seed, f"{k}{off}{row}"), dec=0.4 * row, z=z,
                    w=float(next(prime)) / 7.0 + 0.1, name=f"{k}/{off}")

    R, U, RR = [], [], []
    for k in range(npatch):
        # patch k: k+2 reference objects over the bins in a k-dependent pattern
        for t in range(k + 2):
            R.append(o(k, 0.5 * t - 0.4, mids[(k + t) % 5], t % 2))
        # one more object in the first bin whose weight makes float addition visibly non-associative across
        # patches: 2^53 in patch 0, 1.0 elsewhere ((2^53 + 1) + 1 != 2^53 + (1 + 1))
        extra = o(k, 0.9, 0.12, 1)
        extra["w"] = float(2**53) if k == 0 else 1.0
        R.append(extra)
        for t in range(2 + (k % 2)):
            U.append(o(k, 0.35 * t + 0.2 + 2.7 * (t == 2), None))
        for t in range(3):
            RR.append(o(k, -0.6 + 0.9 * t + 1.9 * (t == 2), mids[(2 * k + t) % 5], (t + 1) % 2))
    world = "equator"
    cen = worlds.centres(world, npatch)
    cats = {}
    for name, objs in (("R", R), ("U", U), ("RR", RR)):
        c = worlds.realise(world, objs, npatch)
        assert len(set(c["patch"].tolist())) == npatch
        cats[name] = worlds.make_catalog(os.path.join(root, name), c, cen)
    return cats


def config(closed="right"):
    import yaw

    return yaw.Configuration.create(rmin=[0.3, 0.9], rmax=[1.1, 3.4], unit="deg", edges=EDGES, closed=closed)


def h(*parts):
    m = hashlib.sha1()
    for p in parts:
        if isinstance(p, np.ndarray):
            m.update(str(p.dtype).encode() + str(p.shape).encode() + np.ascontiguousarray(p).tobytes())
        else:
            m.update(repr(p).encode())
    return m.hexdigest()[:16]


def obs_corrfuncs(cfs):
    parts = []
    for cf in cfs:
        for kind in ("dd", "dr", "rd", "rr"):
            nc = getattr(cf, kind)
            if nc is None:
                parts.append(None)
                continue
            parts += [nc.counts.counts, nc.sum_weights.sum_weights1, nc.sum_weights.sum_weights2,
                      nc.counts.binning.edges, str(nc.counts.binning.closed), bool(nc.counts.auto)]
        s = cf.sample()
        parts += [s.data, s.samples]
    return h(*parts)


def obs_trees(cat):
    from yaw.catalog.trees import BinnedTrees

    parts = []
    for pid, patch in cat.items():
        bt = BinnedTrees(patch)
        trees = bt.trees if bt.is_binned() else (bt.trees,)
        parts.append((pid, None if bt.binning is None else (bt.binning.edges.tolist(), str(bt.binning.closed))))
        for t in trees:
            parts += [t.num_records, t.sum_weights, np.array(t.data), t.weights, None if t.tree is None else t.tree.leafsize]
    return h(*parts)


def obs_catalog(cat):
    parts = [list(cat.keys()), cat.get_num_records(), cat.get_sum_weights(), cat.get_centers().data,
             cat.get_radii().data]
    for pid, p in cat.items():
        parts += [pid, str(p.cache_path), p.meta.num_records, p.load_data()]
    return h(*parts)


def make_body(entry, root, cats, closed="right"):
    """Returns (body, reset) - body runs the entry point once and returns an observation digest."""
    import yaw
    from yaw import Catalog

    conf = config(closed)
    R, U, RR = cats["R"], cats["U"], cats["RR"]

    def drop_trees(*cs):
        for c in cs:
            for p in c.values():
                for f in ("trees.pkl", "binning"):
                    try:
                        os.remove(p.cache_path / f)
                    except FileNotFoundError:
                        pass

    def drop_meta(c):
        for p in c.values():
            try:
                os.remove(p.cache_path / "meta.yml")
            except FileNotFoundError:
                pass

    if entry == "load":
        def body():
            drop_meta(R)  # metadata are recomputed by the pool tasks
            return obs_catalog(Catalog(R.cache_directory))
    elif entry == "trees-binned":
        def body():
            drop_trees(R)
            R.build_trees(EDGES, closed=closed)
            return obs_trees(R)
    elif entry == "trees-options":
        def body():
            # non-default options on top of existing trees of the same binning: honoured for every worker count
            R.build_trees(EDGES, closed=closed)
            R.build_trees(EDGES, closed=closed, leafsize=3, force=True)
            return obs_trees(R)
    elif entry == "trees-unbinned":
        def body():
            drop_trees(U)
            U.build_trees(None)
            return obs_trees(U)
    elif entry == "hist":
        def body():
            hd = yaw.HistData.from_catalog(R, conf)
            return h(hd.data, hd.samples, hd.binning.edges)
    elif entry == "auto":
        def body():
            return obs_corrfuncs(yaw.autocorrelate(conf, R, RR, count_rr=True))
    else:
        def body():
            return obs_corrfuncs(yaw.crosscorrelate(conf, R, U, ref_rand=RR, unk_rand=U))
    return body


def distinct_contents(cats):
    import yaw

    per = []
    for p in cats["R"].values():
        z = p.redshifts
        w = p.weights
        per.append(tuple(np.histogram(z, EDGES, weights=w)[0].tolist()))
    on_edge = any(np.isin(p.redshifts, EDGES[1:-1]).any() for p in cats["R"].values())
    assert on_edge, "fixture lost its on-edge redshifts"
    return len(set(per)) == len(per)


def run_case(case):
    if case["entry"] == "realpool-seq":
        return run_realpool_seq(case)
    if case["entry"] == "boundary":
        return run_boundary(case)
    import time as _t
    t0 = _t.time()
    entry, npatch, W = case["entry"], case["npatch"], case["W"]
    root = runner.fresh_dir("c05")
    yawx.sequential()
    vmp.uninstall()
    cats = make_caches(root, npatch, case["seed"])
    assert distinct_contents(cats)
    body = make_body(entry, root, cats, case.get("closed", "right"))
    # sequential baseline (no pool at all)
    base = body()
    # a caller edits, in place, the arrays the patches hand out; the cache on disk is untouched, so every later run
    # (sequential on these objects, or in workers on unpickled copies) must still give the same result
    edited = 0
    for cat in cats.values():
        for patch in cat.values():
            for arr in (patch.redshifts, patch.weights):
                if arr is not None and getattr(arr, "flags", None) is not None and arr.flags.writeable:
                    arr += 1.0
                    edited += 1
    base2 = body()
    if base != base2:
        res = dict(nontrivial=True, key=case, counters=dict(executions=2, states=2, transitions=2))
        res.update(status="violation", violations=[dict(
            signature=f"C05/{entry}/sequential-run-uses-edited-copies",
            what=f"{entry}: after a caller edited arrays obtained from Patch.redshifts / Patch.weights in place the sequential "
                 f"run gives another result (workers read the untouched cache: the result depends on the worker count)")])
        return res
    vmp.install(workers=W)
    memo = {}
    viols = []
    counters = dict(executions=0, states=0, transitions=0, pools=0, nondefault_orders=0, capped=0)
    outcomes = set()

    def observe(ex):
        if ex["verdict"] != "ok":
            return f"DEADLOCK {ex['deadlock']}"
        if ex["exc"] is not None:
            return f"EXC {type(ex['exc']).__name__}: {str(ex['exc'])[:120]}"
        return ex["value"]

    def account(res, what):
        counters["executions"] += res["executions"]
        counters["states"] += res["states"]
        counters["transitions"] += res["transitions"]
        counters["capped"] += int(res["capped"])
        counters["nondefault_orders"] += res.get("nondefault", 0)
        for dig, o in res["outcomes"].items():
            outcomes.add(dig)
            if dig != base:
                ex = o["example"]
                orders = [p["order"] for p in ex["pools"]]
                kind = dig.split(":")[0].replace(" ", "-")[:40] if dig.startswith(("EXC", "DEADLOCK")) else "result-differs"
                viols.append(dict(
                    signature=f"C05/{entry}/{kind}",
                    what=f"{entry} with {W} workers ({what}) and completion orders {orders} gives another "
                         f"result than the sequential run ({dig if kind != 'result-differs' else 'bit-wise different'})",
                    detail=dict(choices=o["trace"], orders=orders)))

    try:
        first = vmp.execute(body, memo=memo)
        pools = first["pools"]
        counters["pools"] = len(pools)
        if observe(first) != base:
            account(dict(executions=1, states=1, transitions=0, capped=False,
                         outcomes={observe(first): dict(count=1, trace=[], example=first)}), "submission order")
        elif len(pools) != NPOOLS[entry]:
            raise RuntimeError(f"{entry}: expected {NPOOLS[entry]} pools, saw {len(pools)}")
        focus = case["focus"]
        if viols:
            pass  # already differs in submission order; the pool structure may differ from the expected one
        elif focus == "joint":
            # all pools jointly, at most two deviations from submission order (bounded cross-check of the
            # one-pool-at-a-time argument; its execution cap is not a coverage claim)
            res = vmp.explore(body, memo=memo, bound=2, observe=observe, max_exec=1500)
            res["capped"] = False
            account(res, "all pools jointly, <= 2 deviations")
        else:
            pl = pools[focus]
            if pl["tasks"] >= 2:
                merge = pl["tasks"] > 5 and pl["consumer"] is not None
                res = vmp.explore(body, focus=focus, memo=memo, merge=merge, observe=observe, max_exec=60000)
                account(res, f"pool {focus} [{pl['consumer']}, {pl['tasks']} tasks]")
    finally:
        vmp.uninstall()
        yawx.sequential()
    import time as _t
    counters["case_ms"] = int(1000 * (_t.time() - t0))
    res = dict(nontrivial=counters["nondefault_orders"] > 0, key=case, counters=counters,
               outcomes=sorted(outcomes), sample=dict(case, pools=[(p["consumer"], p["tasks"]) for p in pools],
                                                      executions=counters["executions"], ms=counters["case_ms"]))
    if counters["capped"]:
        raise RuntimeError(f"exploration cap hit for {case}")
    if viols:
        uniq = {}
        for v in viols:
            uniq.setdefault(v["signature"], v)
        res.update(status="violation", violations=list(uniq.values()))
    return res


def finish(ctx):
    """Conformance of the virtual pool: free-running real pools must reproduce the sequential observation."""
    script = os.path.join(os.path.dirname(os.path.dirname(os.path.abspath(__file__))), "vlib", "realmp_conf.py")
    p = subprocess.run([sys.executable, script, "c05", str(ctx["seed"])], capture_output=True, text=True)
    try:
        rep = json.loads(p.stdout.strip().splitlines()[-1])
    except Exception:
        ctx["errors"].append(dict(case="realmp conformance", trace=p.stdout[-2000:] + p.stderr[-2000:]))
        return dict(conformance_runs=0)
    if rep["mismatches"] and not ctx["found"]:
        ctx["errors"].append(dict(case="realmp conformance",
                                  trace="real pool runs differ from the sequential run although the virtual "
                                        f"exploration found no such outcome: {rep['mismatches']}"))
    return dict(conformance_runs=rep["runs"], conformance_mismatches=len(rep["mismatches"]))
