"""C10 - redshift-bin membership follows the closed-side rule everywhere.

Bounded-exhaustive enumeration (engine E1): every edge array x closed side x
redshift value on / one ulp around every edge (plus centres, far outside) as a
single object, as every ordered pair of objects, and all at once, spread over
two patches so that empty bins and patches without in-range objects occur.
Three consumers of the binning are driven on the real cache directories and
compared with the interval predicate: the per-bin trees, the per-bin weight
sums of auto- and cross-correlation, and the redshift histogram.
"""

from __future__ import annotations

import itertools

import numpy as np

from vlib import ref, runner, yawx

PROPERTY = "C10"
LEVEL = "exploration"
RULE = (
    "product of edge arrays x closed side x weights on/off x object layouts "
    "(single probe + out-of-range filler patch; every ordered pair of alphabet values "
    "in patches 0/1; the whole alphabet at once); the redshift alphabet holds each edge, "
    "its two float neighbours, bin centres and far-outside values; generated equal-width binnings (np.linspace edges: 9 bins on "
    "[0.1,1], 30 bins on [0.01,3], 300 bins on [0.05,3.05]) with single probes and the whole alphabet; the whole alphabet also with the consumers "
    "running on a 2-worker virtual pool (binning pickled to the workers); after all consumers the histogram for the other closed side (trees of this side are cached). Non-trivial: a "
    "redshift on or 1 ulp from an edge, or a patch/bin without in-range object. "
    "Distinct: canonical JSON of the case."
)
ASSUMPTIONS = [
    "float64 comparison of a redshift with an edge is exact, so the reference predicate is exact",
    "catalogs created sequentially through Catalog.from_dataframe(patch_name=...)",
]

EDGE_SETS = {
    "quick": [[0.1, 0.2, 0.4], [0.25, 0.5, 1.0, 1.75]],
    "thorough": [[0.1, 0.3], [0.1, 0.2, 0.4], [0.1, 0.2, 0.3, 0.4], [0.25, 0.5, 1.0, 1.75],
                 [0.01, 0.02, 0.05]],
}
PRIMES = [q for q in range(2, 30000) if all(q % r for r in range(2, int(q ** 0.5) + 1))]
# equal-width binnings as the configuration generates them (np.linspace): edges are not multiples of the width
LINEAR_SETS = {
    "quick": [(0.1, 1.0, 9), (0.01, 3.0, 30), (0.05, 3.05, 300)],
    "thorough": [(0.1, 1.0, 9), (0.01, 3.0, 30), (0.05, 3.05, 300), (0.0, 1.0, 10), (0.07, 1.3, 7), (0.2, 2.3, 21), (0.0, 6.0, 600)],
}


def alphabet(edges):
    vals = []
    for e in edges:
        vals += [float(np.nextafter(e, -np.inf)), float(e), float(np.nextafter(e, np.inf))]
    vals += [float((a + b) / 2) for a, b in zip(edges[:-1], edges[1:])]
    vals += [edges[0] / 10.0, edges[-1] * 3.0]
    return vals


def cases(tier, seed):
    out = []
    for edges in EDGE_SETS[tier]:
        alpha = alphabet(edges)
        below = edges[0] / 10.0
        for closed in ("right", "left"):
            for weighted in (False, True):
                base = dict(edges=edges, closed=closed, weighted=weighted)
                # single probe in patch 0; patch 1 holds one out-of-range object
                for z in alpha:
                    out.append(dict(base, layout="single", z=[z, below], pid=[0, 1]))
                # single probe, filler in range (centre of first bin)
                mid = (edges[0] + edges[1]) / 2
                for z in alpha:
                    out.append(dict(base, layout="single+", z=[z, mid], pid=[0, 1]))
                # the whole alphabet at once, alternating patches
                out.append(dict(base, layout="full", z=alpha,
                                pid=[i % 2 for i in range(len(alpha))]))
                out.append(dict(base, layout="full-split", z=alpha,
                                pid=[int(i >= len(alpha) // 2) for i in range(len(alpha))]))
                out.append(dict(base, layout="full", z=alpha, pid=[i % 2 for i in range(len(alpha))], W=2))
                for z0, z1 in itertools.product(alpha, alpha):
                    out.append(dict(base, layout="pair", z=[z0, z1], pid=[0, 1]))
    for zmin, zmax, nb in LINEAR_SETS[tier]:
        edges = np.linspace(zmin, zmax, nb + 1).tolist()
        alpha = alphabet(edges)
        below = edges[0] / 10.0 if edges[0] > 0 else -0.1
        alpha[-2] = below
        for closed in ("right", "left"):
            for weighted in (False, True):
                base = dict(edges=edges, closed=closed, weighted=weighted, linear=[zmin, zmax, nb])
                for z in alpha:
                    if (weighted and tier == "quick") or nb >= 300:
                        break
                    out.append(dict(base, layout="single", z=[z, below], pid=[0, 1]))
                out.append(dict(base, layout="full", z=alpha, pid=[i % 2 for i in range(len(alpha))]))
                out.append(dict(base, layout="full-split", z=alpha,
                                pid=[int(i >= len(alpha) // 2) for i in range(len(alpha))]))
    # simplest first: fewer objects, fewer bins
    out.sort(key=lambda c: (len(c["z"]), len(c["edges"])))
    return out


def setup():
    yawx.sequential()


def run_case(case):
    import yaw
    from yaw.catalog.trees import BinnedTrees

    edges = np.array(case["edges"])
    closed = case["closed"]
    z = np.array(case["z"], dtype=float)
    pid = np.array(case["pid"])
    n = len(z)
    w = np.array(PRIMES[:n], dtype=float) if case["weighted"] else None
    npatch = 2
    nbins = len(edges) - 1

    # reference
    exp_cnt = np.zeros((nbins, npatch))
    exp_w = np.zeros((nbins, npatch))
    for i in range(n):
        b = ref.ref_bin(z[i], edges, closed)
        if b >= 0:
            exp_cnt[b, pid[i]] += 1
            exp_w[b, pid[i]] += w[i] if w is not None else 1.0
    on_edge = bool(np.isin(z, edges).any())
    near_edge = any(abs(zz - e) <= 2 * np.spacing(e) for zz in z for e in edges)
    empty_patch = bool((exp_cnt.sum(axis=0) == 0).any())
    facts = "/".join(
        f for f, on in (("on-edge", on_edge), ("patch-without-in-range-object", empty_patch)) if on
    ) or "generic"

    # two objects per patch position: spread them so that pairs exist but geometry is irrelevant
    ra = 10.0 + 0.01 * np.arange(n) + 5.0 * pid
    dec = np.zeros(n)
    d = runner.fresh_dir("c10")
    cat = yawx.make_catalog(d + "/ref", ra, dec, z=z, w=w, pid=pid)
    unk = yawx.make_catalog(d + "/unk", ra, dec, w=w, pid=pid)
    config = yaw.Configuration.create(rmin=0.001, rmax=1.0, unit="deg", edges=edges.tolist(),
                                      closed=closed)
    if "linear" in case:
        zmin, zmax, nb = case["linear"]
        generated = yaw.Configuration.create(rmin=0.001, rmax=1.0, unit="deg", zmin=zmin, zmax=zmax, num_bins=nb,
                                             closed=closed)
        if np.array_equal(generated.binning.edges, edges):
            config = generated  # the generated binning itself (same edges bit for bit)
    viols = []

    def check(consumer, fn):
        try:
            got = fn()
        except Exception as e:  # the property says: zeros rather than errors
            viols.append(dict(
                signature=f"C10/{consumer}/exception:{type(e).__name__}/{facts}",
                what=f"{consumer} raised {yawx.exc_name(e)} (closed={closed}, {facts})",
                detail=dict(edges=case["edges"], z=case["z"], pid=case["pid"])))
            return
        for name, g, e in got:
            if not np.array_equal(np.asarray(g, dtype=float), e):
                viols.append(dict(
                    signature=f"C10/{consumer}/mismatch:{name}/closed={closed}/{facts}",
                    what=f"{consumer} {name} = {np.asarray(g).tolist()} but the interval rule "
                         f"gives {e.tolist()} (closed={closed}, {facts})",
                    detail=dict(edges=case["edges"], z=case["z"], pid=case["pid"])))
                return

    def trees():
        cat.build_trees(edges, closed=closed)
        cnt = np.zeros((nbins, npatch))
        sw = np.zeros((nbins, npatch))
        for p, patch in cat.items():
            for b, tree in enumerate(BinnedTrees(patch)):
                cnt[b, p] = tree.num_records
                sw[b, p] = tree.sum_weights
        return [("num_records", cnt, exp_cnt), ("sum_weights", sw, exp_w)]

    def auto():
        cf = yaw.autocorrelate(config, cat, cat, count_rr=False)[0]
        return [("dd.sum_weights1", cf.dd.sum_weights.sum_weights1, exp_w),
                ("dd.sum_weights2", cf.dd.sum_weights.sum_weights2, exp_w),
                ("dr.sum_weights2", cf.dr.sum_weights.sum_weights2, exp_w)]

    def cross():
        # the reference randoms carry the same edge-valued redshifts: every catalog that is binned must follow the rule
        rand = yawx.make_catalog(d + "/rand", ra, dec, z=z, w=w, pid=pid)
        cf = yaw.crosscorrelate(config, cat, unk, unk_rand=unk, ref_rand=rand)[0]
        tot = np.zeros(npatch)
        for i in range(n):
            tot[pid[i]] += w[i] if w is not None else 1.0
        return [("dd.sum_weights1", cf.dd.sum_weights.sum_weights1, exp_w),
                ("dd.sum_weights2", cf.dd.sum_weights.sum_weights2, np.tile(tot, (nbins, 1))),
                ("rd.sum_weights1", cf.rd.sum_weights.sum_weights1, exp_w),
                ("rr.sum_weights1", cf.rr.sum_weights.sum_weights1, exp_w)]

    def hist():
        h = yaw.HistData.from_catalog(cat, config)
        tot = exp_w.sum(axis=1)
        # (order of the jackknife samples is C03's business, not checked here)
        return [("data", h.data, tot)]

    W = case.get("W", 1)
    if W > 1:
        # the same consumers with the work done by pool workers: the binning crosses a process boundary (pickled);
        # one execution in submission order on the virtual pool (orders are C05's business)
        from vlib import vmp

        def pooled(fn):
            def run():
                vmp.install(workers=W)
                try:
                    ex = vmp.execute(fn)
                finally:
                    vmp.uninstall()
                    yawx.sequential()
                if ex["verdict"] != "ok":
                    raise RuntimeError(f"virtual pool: {ex['verdict']} {ex['deadlock']}")
                if ex["exc"] is not None:
                    raise ex["exc"]
                return ex["value"]
            return run
        trees, auto, cross, hist = pooled(trees), pooled(auto), pooled(cross), pooled(hist)
    check("build_trees", trees)
    check("autocorrelate", auto)
    check("crosscorrelate", cross)
    check("histogram", hist)

    def hist_other_side():
        # the trees cached on disk belong to `closed`; a histogram for the other side must follow its own rule
        other = "left" if closed == "right" else "right"
        conf2 = yaw.Configuration.create(rmin=0.001, rmax=1.0, unit="deg", edges=edges.tolist(), closed=other)
        tot = np.zeros(nbins)
        for i in range(n):
            b = ref.ref_bin(z[i], edges, other)
            if b >= 0:
                tot[b] += w[i] if w is not None else 1.0
        h = yaw.HistData.from_catalog(cat, conf2)
        return [("data", h.data, tot)]

    if "W" not in case:
        check("histogram-other-side-after-trees", hist_other_side)

    res = dict(nontrivial=bool(near_edge or empty_patch), key=case,
               outcomes=[runner.digest([exp_cnt.tolist(), exp_w.tolist()])])
    if viols:
        res.update(status="violation", violations=viols)
    return res
