"""C03 - jackknife sample k is the statistic with patch k left out.

Engine E1 over (a) count / sum-of-weight containers with fingerprint, single-cell
and all 0/1 contents, (b) CorrFunc.sample() and RedshiftData.from_corrfuncs for every
defined member subset, (c) HistData.from_catalog on real caches with pairwise
different per-patch histograms, (d) covariance of every small integer sample
matrix, (e) end-to-end: the real pipeline on a world with patch k physically
removed from every input frame (differential, no expected value written down).
"""

from __future__ import annotations

import itertools

import numpy as np

from vlib import containers as C
from vlib import ref, runner, yawx

PROPERTY = "C03"
LEVEL = "exploration"
RULE = (
    "(a) PatchedCounts/PatchedSumWeights/NormalisedCounts x bins{1,2,3} x patches{2..5} x auto/cross x "
    "contents {fingerprint 2^(iN+j)3^b, every single-cell array, every 0/1 array for N<=3, auto containers with a full (not upper triangular) matrix}; "
    "(b) CorrFunc member subsets x auto/cross -> sample() and from_corrfuncs with {none,ref,unk,both}; "
    "(c) HistData.from_catalog on 2..4 patch catalogs, also on the cache reopened with two workers under every completion order of the loading and histogram pools; (d) all sample matrices over {0,1,2} with M*B<=6 "
    "plus fingerprints and matrices with one NaN / inf entry in every position; normalised counts with all weight of a bin in one patch (0/0 samples; binary and decimal values); resample_jackknife directly on 2..400 (2000) patches (also scaled by 2^-50 / 2^60); sampling again after PatchedCounts.set_patch_pair; containers of B x N = (33,3), (40,3), (70,2), (30,200) (block-wise summation thresholds); joint covariance of two sample sets in both layouts (rowvar); and the same matrices on top of a common value 1e6 (exact shift invariance, tolerance 1e-8); (e) pipeline with patch k removed from all frames. Oracle: explicit-loop "
    "leave-one-out recomputation in patch-index order, (N-1)/N sum (x_k-mean)(x_k-mean)^T. Non-trivial: "
    "contents in which a permutation/loss of a patch changes some sample (asserted per case)."
)
ASSUMPTIONS = [
    "fingerprint cells are powers of two times powers of three: sums are exact in float64",
    "Landy-Szalay without DR is not defined by the statement; those member subsets are not sampled",
]


def cases(tier, seed):
    out = []
    Ns = (2, 3, 4, 5) if tier == "thorough" else (2, 3, 4)
    for B, N, auto in itertools.product((1, 2, 3), Ns, (False, True)):
        for T in ("PatchedCounts", "PatchedSumWeights", "NormalisedCounts"):
            out.append(dict(part="sum", T=T, B=B, N=N, auto=auto, content="fp"))
        # auto containers whose counts are not upper triangular (e.g. after .patches[::-1])
        if auto:
            for T in ("PatchedCounts", "NormalisedCounts"):
                out.append(dict(part="sum", T=T, B=B, N=N, auto=auto, content="fp", full_matrix=True))
        # first bin: catalog 1 has objects (weights, pairs) in patch 0 only - the sample without patch 0 is 0/0
        out.append(dict(part="sum", T="NormalisedCounts", B=B, N=N, auto=auto, content="fp", single_patch_weights=True))
        # the same with values that are no binary fractions (sums are rounded): sample 0 is still 0/0, not noise/noise
        out.append(dict(part="sum", T="NormalisedCounts", B=B, N=N, auto=auto, content="fp", single_patch_weights="decimal"))
        # single cells
        if B <= 2:
            for b, i, j in itertools.product(range(B), range(N), range(N)):
                if auto and j < i:
                    continue
                for T in ("PatchedCounts", "NormalisedCounts"):
                    out.append(dict(part="sum", T=T, B=B, N=N, auto=auto, content="cell", cell=[b, i, j]))
        for members in C.MEMBER_SUBSETS:
            if "rr" in members and "dr" not in members:
                continue
            for autos in ("none", "ref", "unk", "both"):
                out.append(dict(part="corrfunc", B=B, N=N, auto=auto, members=list(members),
                                autos=autos))
    # all 0/1 arrays
    for N, auto in itertools.product((2, 3), (False, True)):
        cells = [(i, j) for i in range(N) for j in range(N) if not (auto and j < i)]
        if len(cells) > 6 and tier != "thorough":
            # 2^9 arrays for N=3 cross: quick tier takes those with <= 3 cells set
            masks = [m for m in range(2 ** len(cells)) if bin(m).count("1") <= 3]
        else:
            masks = range(2 ** len(cells))
        for m in masks:
            out.append(dict(part="sum", T="PatchedCounts", B=1, N=N, auto=auto, content="bits", bits=m))
    for N in (2, 3, 4):
        for w in (False, True):
            out.append(dict(part="hist", N=N, weighted=w, closed="right"))
            out.append(dict(part="hist", N=N, weighted=w, closed="left"))
    for M, B in itertools.product((2, 3, 4), (1, 2, 3)):
        if M * B <= 6:
            for vals in itertools.product((0, 1, 2), repeat=M * B):
                out.append(dict(part="cov", M=M, B=B, vals=list(vals)))
                if M * B <= 4 or tier == "thorough":
                    # the same scatter on top of a large common value (counts of 1e6 objects with a scatter of
                    # order one): the covariance is shift invariant, all inputs are exact in binary
                    out.append(dict(part="cov", M=M, B=B, vals=list(vals), offset=1.0e6))
        out.append(dict(part="cov", M=M, B=B, vals=[C.PRIMES[i] * (1 + i % 3) for i in range(M * B)]))
        # an undefined realisation (NaN / inf) in one sample of one bin: the formula gives NaN for that bin
        for pos, bad in itertools.product(range(M * B), ("nan", "inf")):
            out.append(dict(part="cov", M=M, B=B, vals=[C.PRIMES[i] * (1 + i % 3) for i in range(M * B)],
                            undefined=[pos, bad]))
    for N in (2, 3, 5, 127, 128, 129, 181, 182, 183, 200, 255, 256, 257, 300, 362, 363, 400) + ((1000, 2000) if tier == "thorough" else ()):
        for B in (1, 3):
            out.append(dict(part="resample", N=N, B=B))
            if N <= 5:  # histograms of tiny or huge weights: the samples scale with them
                out.append(dict(part="resample", N=N, B=B, scale=2.0**-50))
                out.append(dict(part="resample", N=N, B=B, scale=2.0**60))
    # many bins / many patches: any internal blocking of the jackknife sums must cover the whole array
    for B, N in ((33, 3), (40, 3), (70, 2), (30, 200)) + (((100, 5), (30, 400)) if tier == "thorough" else ()):
        for auto in (False, True):
            out.append(dict(part="bigshape", B=B, N=N, auto=auto))
    # joint covariance of several sample sets, both orientations (rowvar)
    for M, Bs in ((3, (2, 2)), (4, (1, 2)), (5, (2,)), (2, (3, 1))):
        out.append(dict(part="covjoint", M=M, Bs=list(Bs)))
    # (e) end to end: remove patch k from every input frame and measure again (differential oracle)
    pas = ("b0", "w0", "n0") if tier == "quick" else ("c0", "b0", "w0", "n0", "f0")
    pbs = ("b1", "n0") if tier == "quick" else ("c1", "b1", "n0", "n1")
    for conf, pa, za, pb, npatch in itertools.product((0, 3), pas, (0, -1), pbs, (3,)):
        out.append(dict(part="e2e", conf=conf, pa=pa, za=za, pb=pb, npatch=npatch, seed=seed))
    out.sort(key=lambda c: (c.get("N", c.get("M", 0)), c.get("B", 0)))
    return out


def setup():
    yawx.sequential()


def build_counts(case):
    B, N, auto = case["B"], case["N"], case["auto"]
    if case["content"] == "fp":
        return C.fp_counts(B, N, auto)
    c = np.zeros((B, N, N))
    if case["content"] == "cell":
        b, i, j = case["cell"]
        c[b, i, j] = 7.0
        return c
    cells = [(i, j) for i in range(N) for j in range(N) if not (auto and j < i)]
    for k, (i, j) in enumerate(cells):
        if case["bits"] >> k & 1:
            c[0, i, j] = float(2**k)
    return c


def viol(sig, what, detail=None):
    return dict(signature=sig, what=what, detail=detail)


def run_sum(case):
    T, B, N, auto = case["T"], case["B"], case["N"], case["auto"]
    v = []
    sw1 = C.fp_sumw(B, N, 0)
    if case.get("single_patch_weights"):
        sw1[0, 1:] = 0.0  # first bin: all weight of catalog 1 sits in patch 0, sample 0 is 0/0
    if case.get("single_patch_weights") == "decimal":
        sw1 = sw1 * 0.1 + np.where(sw1 > 0, 0.2, 0.0)
    sw2 = sw1.copy() if auto else C.fp_sumw(B, N, 7)
    if T == "PatchedCounts":
        counts = build_counts(case)
        if case.get("full_matrix"):
            counts = counts + 5.0 * np.transpose(counts, (0, 2, 1)) * (1.0 - np.eye(N))
        x = C.make_counts(B, N, auto, counts=counts)
        ed, es = ref.ref_jackknife_sum(counts)
    elif T == "PatchedSumWeights":
        x = C.make_sumw(B, N, auto, sw1=sw1, sw2=sw2)
        ed, es = ref.ref_norm_term(np.ones((B, N, N)), sw1, sw2, auto)
        # reference for the normalisation itself: invert count/norm with count = N*N resp. (N-1)^2
        ed = (N * N) / ed
        es = ((N - 1) ** 2) / es
    else:
        counts = build_counts(case)
        if case.get("full_matrix"):
            counts = counts + 5.0 * np.transpose(counts, (0, 2, 1)) * (1.0 - np.eye(N))
        if case.get("single_patch_weights"):
            counts[0, 1:, :] = 0.0
            if auto:
                counts[0, :, 1:] = 0.0
        if case.get("single_patch_weights") == "decimal":
            counts = counts * 0.1 + np.where(counts > 0, 0.7, 0.0)
        x = C.make_norm(B, N, auto, counts=counts, sw1=sw1, sw2=sw2)
        ed, es = ref.ref_norm_term(counts, sw1, sw2, auto)
    try:
        got = x.sample_patch_sum()
    except Exception as e:
        return [viol(f"C03/{T}.sample_patch_sum/exception:{type(e).__name__}",
                     f"{T}.sample_patch_sum raised {yawx.exc_name(e)}")], False
    tag = "auto" if auto else "cross"
    if not ref.close(got.data, ed):
        v.append(viol(f"C03/{T}.sample_patch_sum/{tag}/data", f"{T} total {got.data.tolist()} != {ed.tolist()}"))
    if not ref.close(got.samples, es):
        kind = "permuted" if ref.close(np.sort(got.samples, axis=0), np.sort(es, axis=0)) else "wrong"
        v.append(viol(f"C03/{T}.sample_patch_sum/{tag}/samples-{kind}",
                      f"{T} ({tag}, content {case['content']}) jackknife samples {got.samples.tolist()} "
                      f"!= leave-one-out recomputation {es.tolist()}"))
    if T in ("PatchedCounts", "NormalisedCounts") and case["content"] == "fp":
        # the documented in-place setter after a first sampling: the next sampling describes the current counts
        pc = x if T == "PatchedCounts" else x.counts
        new = counts.copy()
        i, j = (0, N - 1)
        new[:, i, j] = new[:, i, j] * 3.0 + 11.0
        try:
            pc.set_patch_pair(i, j, new[:, i, j])
            got2 = x.sample_patch_sum()
            ed2, es2 = ref.ref_jackknife_sum(new) if T == "PatchedCounts" else ref.ref_norm_term(new, sw1, sw2, auto)
            if not (ref.close(got2.data, ed2) and ref.close(got2.samples, es2)):
                v.append(viol(f"C03/{T}.sample_patch_sum/stale-after-set_patch_pair",
                              f"{T}: sampling after set_patch_pair({i},{j}) does not describe the updated counts"))
        except Exception as e:
            v.append(viol(f"C03/{T}.set_patch_pair/exception:{type(e).__name__}", f"raised {yawx.exc_name(e)}"))
    # non-trivial: samples pairwise different (a permutation would show)
    nontrivial = len({tuple(r) for r in np.round(es, 12).tolist()}) == N
    return v, nontrivial


def run_resample(case):
    """resample_jackknife on per-patch histograms with many patches (index arithmetic grows with N^2)."""
    from yaw.redshifts import resample_jackknife

    N, B = case["N"], case["B"]
    obs = (np.arange(N)[:, None] * 7.0 + np.arange(B)[None, :] * 3.0 + 1.0) ** 2 % 1009.0 + np.arange(N)[:, None]
    want = obs.sum(axis=0)[None, :] - obs  # leave-one-out sums, exact in float64 (integers)
    scale = case.get("scale", 1.0)  # a power of two: everything stays exact
    obs, want = obs * scale, want * scale
    v = []
    for rows, arg in ((True, obs), (False, obs.T.copy())):
        try:
            got = resample_jackknife(arg, patch_rows=rows)
        except Exception as e:
            v.append(viol(f"C03/resample_jackknife/exception:{type(e).__name__}", f"raised {yawx.exc_name(e)} for {N} patches"))
            continue
        if got.shape != want.shape or not np.array_equal(got, want):
            bad = int(np.sum(np.any(got != want, axis=1))) if got.shape == want.shape else N
            v.append(viol("C03/resample_jackknife/samples-wrong",
                          f"resample_jackknife with {N} patches x {B} bins (patch_rows={rows}): {bad} of {N} samples are "
                          f"not the sum over all patches but k"))
    return v, True


def run_bigshape(case):
    from yaw import Binning
    from yaw.correlation.paircounts import NormalisedCounts, PatchedCounts, PatchedSumWeights

    B, N, auto = case["B"], case["N"], case["auto"]
    binning = Binning(np.linspace(0.1, 0.1 + 0.01 * B, B + 1))
    b, i, j = np.meshgrid(np.arange(B), np.arange(N), np.arange(N), indexing="ij")
    counts = ((7 * b + 3 * i + 5 * j + i * j) % 11 + 1).astype(float)  # small integers: all sums exact
    if auto:
        counts = counts * (j >= i)
    sw1 = ((3 * np.arange(B)[:, None] + np.arange(N)[None, :]) % 5 + 1).astype(float)
    sw2 = sw1.copy() if auto else ((2 * np.arange(B)[:, None] + 3 * np.arange(N)[None, :]) % 7 + 1).astype(float)
    x = NormalisedCounts(PatchedCounts(binning, counts, auto=auto), PatchedSumWeights(binning, sw1, sw2, auto=auto))
    v = []
    try:
        got = x.counts.sample_patch_sum()
        gotw = x.sum_weights.sample_patch_sum()
    except Exception as e:
        return [viol(f"C03/bigshape/exception:{type(e).__name__}", yawx.exc_name(e))], True
    tot = counts.sum(axis=(1, 2))
    diag = np.einsum("bii->bi", counts)
    loo = (tot[:, None] - counts.sum(axis=2) - counts.sum(axis=1) + diag).T  # exact in integers
    if not (np.array_equal(got.data, tot) and np.array_equal(got.samples, loo)):
        bad = sorted(set(np.nonzero(got.samples != loo)[1].tolist()))[:6] if got.samples.shape == loo.shape else "shape"
        v.append(viol("C03/PatchedCounts.sample_patch_sum/many-bins-or-patches",
                      f"{B} bins x {N} patches (auto={auto}): jackknife sums wrong in bins {bad}"))
    prod = sw1[:, :, None] * sw2[:, None, :]
    if auto:
        prod = np.triu(prod) - 0.5 * np.einsum("bij,ij->bij", prod, np.eye(N))
    totw = prod.sum(axis=(1, 2))
    loow = (totw[:, None] - prod.sum(axis=2) - prod.sum(axis=1) + np.einsum("bii->bi", prod)).T
    if not (ref.close(gotw.data, totw, rtol=1e-13) and ref.close(gotw.samples, loow, rtol=1e-12, atol=1e-9)):
        v.append(viol("C03/PatchedSumWeights.sample_patch_sum/many-bins-or-patches",
                      f"{B} bins x {N} patches (auto={auto}): jackknife weight products wrong"))
    return v, True


def run_covjoint(case):
    from yaw.correlation.corrdata import cov_from_samples

    M, Bs = case["M"], case["Bs"]
    sets = [np.array([[C.PRIMES[(k * 7 + b * 3 + t * 11) % len(C.PRIMES)] * (1 + (k + b) % 3) for b in range(B)]
                      for k in range(M)], dtype=float) for t, B in enumerate(Bs)]
    joint = np.concatenate(sets, axis=1)
    want = ref.ref_cov(joint)
    v = []
    for rowvar, arg in ((False, sets), (True, [x.T.copy() for x in sets])):
        try:
            got = cov_from_samples(arg, rowvar=rowvar)
        except Exception as e:
            v.append(viol(f"C03/cov_from_samples/exception:{type(e).__name__}", f"rowvar={rowvar}: {yawx.exc_name(e)}"))
            continue
        if got.shape != want.shape or not ref.close(got, want, rtol=1e-12, atol=1e-12):
            v.append(viol(f"C03/cov_from_samples/joint/rowvar={rowvar}",
                          f"joint covariance of {len(sets)} sample sets ({M} samples, {Bs} observables, rowvar={rowvar}) "
                          f"is not the jackknife covariance of the concatenated samples"))
    return v, True


def run_corrfunc(case):
    import yaw

    B, N, auto, members, autos = case["B"], case["N"], case["auto"], case["members"], case["autos"]
    v = []
    cf = C.make_corrfunc(B, N, auto, members)

    def terms_of(cfunc):
        sn = C.snap(cfunc)
        vals, samps = {}, {}
        for m in ("dd", "dr", "rd", "rr"):
            if sn[m] is None:
                continue
            d, s = ref.ref_norm_term(sn[m]["counts"]["counts"], sn[m]["sum_weights"]["sw1"],
                                     sn[m]["sum_weights"]["sw2"], sn[m]["counts"]["auto"])
            vals[m], samps[m] = d, s
        return vals, samps

    vals, samps = terms_of(cf)
    exp_d = ref.ref_estimator(vals)
    exp_s = ref.ref_estimator(samps)
    try:
        got = cf.sample()
    except Exception as e:
        return [viol(f"C03/CorrFunc.sample/exception:{type(e).__name__}",
                     f"CorrFunc.sample raised {yawx.exc_name(e)} for members {members}")], False
    which = [i for i, (d, s) in enumerate(zip(exp_d, exp_s)) if ref.close(got.data, d)]
    if not which:
        v.append(viol(f"C03/CorrFunc.sample/data/{'+'.join(members)}",
                      f"CorrFunc.sample().data {got.data.tolist()} matches none of the documented "
                      f"estimators {[d.tolist() for d in exp_d]}"))
    elif not any(ref.close(got.samples, exp_s[i]) for i in which):
        es = exp_s[which[0]]
        kind = "permuted" if ref.close(np.sort(got.samples, axis=0), np.sort(es, axis=0)) else "wrong"
        v.append(viol(f"C03/CorrFunc.sample/samples-{kind}/{'+'.join(members)}",
                      f"CorrFunc.sample().samples {got.samples.tolist()} != estimator on leave-one-out "
                      f"terms {es.tolist()}"))
    # in-place update of one member after the first sampling: the next sampling describes the current counts
    if which and autos == "none":
        m = members[0]
        nc = getattr(cf, m)
        i, j = 0, N - 1
        nc.counts.set_patch_pair(i, j, nc.counts.counts[:, i, j] * 2.0 + 5.0)
        vals2, samps2 = terms_of(cf)
        try:
            got2 = cf.sample()
            ok = any(ref.close(got2.data, d) and ref.close(got2.samples, s_)
                     for d, s_ in zip(ref.ref_estimator(vals2), ref.ref_estimator(samps2)))
            if not ok:
                v.append(viol("C03/CorrFunc.sample/stale-after-set_patch_pair",
                              f"CorrFunc.sample() after {m}.counts.set_patch_pair({i},{j}) does not describe the updated counts"))
        except Exception as e:
            v.append(viol(f"C03/CorrFunc.sample/exception:{type(e).__name__}", f"second sample() raised {yawx.exc_name(e)}"))
        cf = C.make_corrfunc(B, N, auto, members)  # pristine object for what follows
    # covariance and error of exactly these samples
    try:
        cov = got.covariance
        err = got.error
        ecov = ref.ref_cov(got.samples)
        scale = max(1e-300, float(np.nanmax(np.abs(ecov)))) if np.isfinite(ecov).any() else 1.0
        if not ref.close(cov, ecov, rtol=1e-10, atol=1e-12 * scale):
            v.append(viol("C03/covariance/wrong", f"covariance {cov.tolist()} != jackknife covariance {ecov.tolist()}"))
        if np.isfinite(cov).all():
            if not np.array_equal(cov, cov.T) and not ref.close(cov, cov.T, rtol=1e-13):
                v.append(viol("C03/covariance/asymmetric", "covariance is not symmetric"))
            if np.linalg.eigvalsh((cov + cov.T) / 2).min() < -1e-10 * max(np.trace(cov), 1e-300):
                v.append(viol("C03/covariance/not-psd", "covariance has a negative eigenvalue"))
        with np.errstate(all="ignore"):
            if not ref.close(err, np.sqrt(np.diag(ecov)), rtol=1e-10, atol=1e-12 * np.sqrt(scale)):
                v.append(viol("C03/error/wrong", "error is not the root of the covariance diagonal"))
    except Exception as e:
        v.append(viol(f"C03/covariance/exception:{type(e).__name__}", f"covariance raised {yawx.exc_name(e)}"))

    # redshift estimate: sample k must combine sample k of every input
    ref_cf = C.make_corrfunc(B, N, True, ["dr", "rr"], salt=4) if autos in ("ref", "both") else None
    unk_cf = C.make_corrfunc(B, N, True, ["dr"], salt=9) if autos in ("unk", "both") else None
    try:
        rd = yaw.RedshiftData.from_corrfuncs(cf, ref_cf, unk_cf)
    except Exception as e:
        v.append(viol(f"C03/RedshiftData.from_corrfuncs/exception:{type(e).__name__}",
                      f"from_corrfuncs raised {yawx.exc_name(e)}"))
        rd = None
    if rd is not None and which:
        dz = np.diff(np.array(C.edges_for(B)))
        wsp_d, wsp_s = exp_d[which[0]], exp_s[which[0]]

        def est(cfunc):
            if cfunc is None:
                return 1.0, 1.0
            a, b = terms_of(cfunc)
            return ref.ref_estimator(a)[0], ref.ref_estimator(b)[0]

        wss_d, wss_s = est(ref_cf)
        wpp_d, wpp_s = est(unk_cf)
        with np.errstate(all="ignore"):
            ed = wsp_d / np.sqrt(dz**2 * wss_d * wpp_d)
            es = wsp_s / np.sqrt(dz[None, :] ** 2 * wss_s * wpp_s)
        if not ref.close(rd.data, ed, rtol=1e-11):
            v.append(viol(f"C03/RedshiftData/data/{autos}", f"n(z) {rd.data.tolist()} != {ed.tolist()}"))
        if not ref.close(rd.samples, es, rtol=1e-11):
            v.append(viol(f"C03/RedshiftData/samples/{autos}",
                          f"n(z) samples {rd.samples.tolist()} != formula on sample k of every input {es.tolist()}"))
    fin = np.isfinite(exp_s[0]).all() if exp_s else False
    nontrivial = bool(fin and len({tuple(r) for r in np.round(exp_s[0], 12).tolist()}) == N)
    return v, nontrivial


def run_hist(case):
    import yaw

    N, weighted, closed = case["N"], case["weighted"], case["closed"]
    edges = [0.1, 0.2, 0.3, 0.4]
    # patch p gets p+1 objects in bin p%3 and one in bin (p+1)%3: all per-patch histograms differ
    ra, dec, z, pid = [], [], [], []
    mids = [0.15, 0.25, 0.35]
    for p in range(N):
        for k in range(p + 2):
            b = p % 3 if k <= p else (p + 1) % 3
            ra.append(10.0 * p + 0.1 * k)
            dec.append(0.0)
            z.append(mids[b])
            pid.append(p)
    n = len(z)
    w = np.array(C.PRIMES[:n], dtype=float) if weighted else None
    d = runner.fresh_dir("c03h")
    cat = yawx.make_catalog(d + "/c", ra, dec, z=z, w=w, pid=pid)
    config = yaw.Configuration.create(rmin=0.1, rmax=1.0, unit="deg", edges=edges, closed=closed)
    per = np.zeros((N, 3))
    for i in range(n):
        per[pid[i], ref.ref_bin(z[i], edges, closed)] += w[i] if weighted else 1.0
    assert len({tuple(r) for r in per.tolist()}) == N
    tot = per.sum(axis=0)
    es = np.array([tot - per[k] for k in range(N)])
    v = []
    try:
        h = yaw.HistData.from_catalog(cat, config)
    except Exception as e:
        return [viol(f"C03/HistData.from_catalog/exception:{type(e).__name__}",
                     f"raised {yawx.exc_name(e)}")], True
    if not np.array_equal(h.data, tot):
        v.append(viol("C03/HistData/data", f"histogram {h.data.tolist()} != {tot.tolist()}"))
    if not np.array_equal(h.samples, es):
        kind = "permuted" if np.array_equal(np.sort(h.samples, axis=0), np.sort(es, axis=0)) else "wrong"
        v.append(viol(f"C03/HistData/samples-{kind}",
                      f"histogram jackknife samples {h.samples.tolist()} != total minus patch k "
                      f"{es.tolist()} (N={N})"))
    if not ref.close(h.covariance, ref.ref_cov(h.samples), rtol=1e-10, atol=1e-12):
        v.append(viol("C03/covariance/wrong", "HistData covariance != jackknife covariance of its samples"))
    if v or N < 3:
        return v, True
    # the same cache reopened and used with two workers: every completion order of the loading pool and of the
    # histogram pool (virtual pool); sample k must still leave out patch k
    from vlib import vmp

    def body():
        c2 = yaw.Catalog(d + "/c")
        h2 = yaw.HistData.from_catalog(c2, config)
        if not np.array_equal(h2.data, tot):
            return "data-wrong"
        if not np.array_equal(h2.samples, es):
            return "samples-permuted" if np.array_equal(np.sort(h2.samples, axis=0), np.sort(es, axis=0)) else "samples-wrong"
        return "ok"

    vmp.install(workers=2)
    try:
        res = vmp.explore(body, max_exec=4000)
    finally:
        vmp.uninstall()
        yawx.sequential()
    if res["capped"]:
        raise RuntimeError(f"execution cap hit in the reopened-catalog histories of {case}")
    for key, o in res["outcomes"].items():
        ex = o["example"]
        verdict = ex["value"] if ex["verdict"] == "ok" and ex["exc"] is None else f"failed:{ex['verdict']}:{type(ex['exc']).__name__}"
        if verdict != "ok":
            v.append(viol(f"C03/HistData/reopened-W2/{verdict}",
                          f"catalog reopened with 2 workers, pool completion orders {[p['order'] for p in ex['pools']]}: "
                          f"histogram {verdict} (N={N}, {o['count']} of {res['executions']} executions)"))
    return v, True


def run_cov(case):
    from yaw.correlation.corrdata import SampledData

    M, B = case["M"], case["B"]
    small = np.array(case["vals"], dtype=float).reshape(M, B)
    if "undefined" in case:
        small.flat[case["undefined"][0]] = dict(nan=np.nan, inf=np.inf)[case["undefined"][1]]
    offset = case.get("offset", 0.0)
    samples = small + offset
    sd = SampledData(C.make_binning(B), samples.mean(axis=0), samples)
    v = []
    ecov = ref.ref_cov(small)  # exact shift invariance: reference from the small integers
    cov = sd.covariance
    # with the offset the deviations from the mean carry a rounding error of offset*2^-53 each
    rtol, atol = (1e-12, 1e-14) if not offset else (1e-8, 1e-9)
    if cov.shape != (B, B) or not ref.close(cov, ecov, rtol=rtol, atol=atol):
        v.append(viol("C03/covariance/wrong", f"covariance of {samples.tolist()} is {cov.tolist()}, "
                      f"expected {ecov.tolist()}"))
    else:
        if not ref.close(cov, cov.T, rtol=1e-14, atol=1e-15):
            v.append(viol("C03/covariance/asymmetric", "covariance is not symmetric"))
        if np.isfinite(cov).all() and np.linalg.eigvalsh((cov + cov.T) / 2).min() < -1e-12 * max(np.trace(cov), 1e-300):
            v.append(viol("C03/covariance/not-psd", "covariance has a negative eigenvalue"))
        if not ref.close(sd.error, np.sqrt(np.diag(ecov)), rtol=rtol, atol=np.sqrt(atol)):
            v.append(viol("C03/error/wrong", "error is not the root of the covariance diagonal"))
    return v, bool(ecov.any())


def run_e2e(case):
    """Jackknife sample k of the real pipeline == the same pipeline with patch k physically removed."""
    import yaw
    from checks import c13
    from vlib import runner, worlds

    c13.setup()
    conf, objs = c13.build(case)
    N = case["npatch"]
    world = "equator"
    cats = [worlds.realise(world, o, N) for o in objs]
    if min(float(c["margin"].min()) for c in cats) < 1e-9 or c13.near_limit(conf, world, cats, N):
        return [], False
    full = c13.measure(conf, world, objs, N, cats=cats)
    edges, closed = worlds.BINNINGS[conf["binning"]]
    config = yaw.Configuration.create(rmin=0.1, rmax=1.0, unit="deg", edges=edges, closed=closed)
    d = runner.fresh_dir("c03e")
    hist_full = yaw.HistData.from_catalog(worlds.make_catalog(d + "/R", cats[0], worlds.centres(world, N)), config)
    v = []
    nontrivial = False
    for k in range(N):
        keep = [i for i in range(N) if i != k]
        red = []
        for c in cats:
            m = c["patch"] != k
            r = {key: (np.asarray(val)[m] if val is not None and key not in ("names",) else val) for key, val in c.items()}
            r["patch"] = np.array([keep.index(p) for p in r["patch"]])
            red.append(r)
        part = c13.measure(conf, world, objs, N - 1, cats=red, cen_perm=np.array(keep), cen_n=N)
        for name, sname in (("data", "samples"), ("nz", "nzs"), ("auto", None)):
            if sname is None:
                continue
            for s_ in range(len(full[name])):
                want = np.asarray(full[sname][s_])[k]
                got = np.asarray(part[name][s_])
                if np.isfinite(want).any():
                    nontrivial = True
                if not c13.close(want, got, rtol=1e-9):
                    v.append(viol(f"C03/e2e/{sname}",
                                  f"jackknife sample {k} of {sname} (scale {s_}) is {want.tolist()} but the pipeline with "
                                  f"patch {k} removed from every catalog gives {got.tolist()}", case))
                    break
        hr = yaw.HistData.from_catalog(worlds.make_catalog(f"{d}/R{k}", red[0], worlds.centres(world, N)[keep]), config)
        if not np.array_equal(hist_full.samples[k], hr.data):
            v.append(viol("C03/e2e/hist-samples", f"histogram sample {k} {hist_full.samples[k].tolist()} != histogram "
                          f"without patch {k} {hr.data.tolist()}", case))
    return v, nontrivial


def run_case(case):
    part = case["part"]
    fn = dict(sum=run_sum, corrfunc=run_corrfunc, hist=run_hist, cov=run_cov, e2e=run_e2e, resample=run_resample, bigshape=run_bigshape, covjoint=run_covjoint)[part]
    viols, nontrivial = fn(case)
    res = dict(nontrivial=bool(nontrivial), key=case)
    if viols:
        uniq = {}
        for x in viols:
            uniq.setdefault(x["signature"], x)
        res.update(status="violation", violations=list(uniq.values()))
    return res
