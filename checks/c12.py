"""C12 - patch metadata describe the patch, and patch i belongs to centre i.

Engine E1 over the three patch-definition modes: given centres in every permutation (incl. a
centre that attracts nothing and single-object patches), a patch-id column, generated centres;
and over pairs of catalogs with differing id sets or displaced centres (measurement must refuse).
"""

from __future__ import annotations

import itertools

import numpy as np

from vlib import ref, runner, worlds, yawx

PROPERTY = "C12"
LEVEL = "exploration"
RULE = (
    "mode 'centres': world {equator,npole,straddle|+spole,generic} x N{2,3,4} x every permutation of the centre "
    "list x layout {single object per centre, several objects incl. near-border, objects 3.5e-7 ... 5e-9 rad from a border, outermost objects with weight 0 / -1, centre k attracts nothing "
    "for each k} x weighted; mode 'ids': N{2,3,4} x scrambled id columns x weighted; mode 'create': patch_num "
    "{2,3} on clumped data; from_random with given centres and a patch_num that must be ignored; a patch of 2^20+5 records written in three chunks with the farthest records last; 'refuse' (N in {1,2,3}; after an accepted pair a displaced catalog re-created in the same directory must still be refused): id sets {0..N-1} vs every proper subset/superset of size N-1,N+1 and "
    "centre k displaced by {0, 0.4, 1.1, 3} x the larger radius. Oracle: num_records/sum_weights from the stored "
    "records, Vincenty separation <= radius, centres[i] == given centre i (also after the caller has modified its own centre array in place), nearest-centre partition. "
    "Non-trivial: N>=3 with a non-identity permutation, an empty centre, or a refusal case."
)
ASSUMPTIONS = [
    "if creation with a centre that attracts no object raises, C12 is satisfied (C09 demands the raise); if it "
    "returns a catalog, that catalog must still satisfy C12",
    "between a displacement of 0 and one larger than both radii the statement makes no demand",
]

D = worlds.D


def cases(tier, seed):
    out = []
    ws = ["equator", "npole", "straddle"] if tier == "quick" else ["equator", "npole", "straddle", "spole", "generic"]
    for world, N, weighted in itertools.product(ws, (2, 3, 4), (False, True)):
        for perm in itertools.permutations(range(N)):
            if tier == "quick" and N == 4 and world != "equator":
                continue
            for layout in ["single", "spread", "knife"] + [f"empty{k}" for k in range(N)]:
                out.append(dict(part="centres", world=world, N=N, perm=list(perm), layout=layout,
                                weighted=weighted, seed=seed))
            # input read in several chunks, rows in reverse order: higher patch ids are met first
            for cs in (1, 2, 3):
                out.append(dict(part="centres", world=world, N=N, perm=list(perm), layout="spread",
                                weighted=weighted, seed=seed, chunksize=cs, reverse=True))
                if tier != "quick":
                    out.append(dict(part="centres", world=world, N=N, perm=list(perm), layout="single",
                                    weighted=weighted, seed=seed, chunksize=cs, reverse=True))
    for world, N in itertools.product(ws, (2, 3)):
        out.append(dict(part="centres", world=world, N=N, perm=list(range(N)), layout="spread", weighted="zero-outer",
                        seed=seed))
    # a patch with more records than any internal block size (2^20), the farthest records at the end of the input
    out.append(dict(part="bigpatch", n=2**20 + 5, seed=seed))
    # random catalogs with given centres and a (to be ignored) patch_num
    for N, cs in itertools.product((1, 2), (3, None)):
        out.append(dict(part="random-centres", N=N, chunksize=cs, seed=seed))
    for N, weighted, scramble in itertools.product((2, 3, 4), (False, True), (0, 1, 2)):
        out.append(dict(part="ids", N=N, weighted=weighted, scramble=scramble, seed=seed))
    for K, weighted in itertools.product((2, 3), (False, True)):
        out.append(dict(part="create", K=K, weighted=weighted, seed=seed))
    for N in (1, 2, 3):  # N=1: single-patch catalogs are checked like any other
        full = list(range(N))
        others = [s for s in (list(c) for r in (N - 1, N, N + 1) for c in itertools.combinations(range(N + 1), r))
                  if s and s != full]
        for ids in others:
            out.append(dict(part="refuse-ids", N=N, ids=ids, seed=seed))
        for k, f in itertools.product(range(N), (0.0, 0.4, 1.1, 3.0)):
            for which, bigger in itertools.product(("unknown", "reference"), ("reference", "unknown")):
                out.append(dict(part="refuse-shift", N=N, k=k, factor=f, which=which, bigger=bigger, seed=seed))
        # single-object patches: the stored radius is exactly 0, any displacement exceeds it
        for k, deg in itertools.product(range(N), (0.0, 0.5, 20.0)):
            out.append(dict(part="refuse-single", N=N, k=k, shift=deg, seed=seed))
    return out


def setup():
    yawx.sequential()
    import warnings

    warnings.simplefilter("ignore")


def viol(sig, what, detail=None):
    return dict(signature=sig, what=what, detail=detail)


def check_catalog(cat, mode, v, *, given_centres=None, input_rows=None, weighted=False, tag=""):
    """Metadata vs stored records for every patch. input_rows: (ra, dec, w) of everything that went in."""
    total = 0
    recs, owner = [], []
    for pid, patch in cat.items():
        data = patch.load_data()
        n = len(data)
        total += n
        w = data["weights"] if "weights" in data.dtype.names else None
        if patch.meta.num_records != n:
            v.append(viol(f"C12/{mode}/num_records", f"patch {pid}: meta.num_records {patch.meta.num_records} != {n} stored"))
        sw = float(np.sum(w)) if w is not None else float(n)
        if not np.isclose(patch.meta.sum_weights, sw, rtol=1e-12, atol=0):
            v.append(viol(f"C12/{mode}/sum_weights", f"patch {pid}: meta.sum_weights {patch.meta.sum_weights} != {sw}"))
        c = patch.meta.center
        s = np.asarray(ref.sep(data["ra"], data["dec"], c.ra[0], c.dec[0])).astype(float)
        r = float(patch.meta.radius.data[0])
        if s.max() > r + 1e-12:
            v.append(viol(f"C12/{mode}/radius{tag}",
                          f"patch {pid}: a record lies {s.max()!r} rad from the stored centre, radius is {r!r}"))
        for row in data:
            recs.append((float(row["ra"]), float(row["dec"])))
            owner.append(pid)
    if tuple(cat.get_num_records()) != tuple(cat[p].meta.num_records for p in cat.keys()):
        v.append(viol(f"C12/{mode}/get_num_records", "get_num_records not in key order"))
    centres = cat.get_centers().data
    if given_centres is not None:
        keys = list(cat.keys())
        if keys != list(range(len(given_centres))):
            v.append(viol(f"C12/{mode}/keys{tag}", f"catalog from {len(given_centres)} centres has patches {keys}"))
        else:
            dsep = np.asarray(ref.sep(centres[:, 0], centres[:, 1], given_centres[:, 0], given_centres[:, 1])).astype(float)
            if dsep.max() > 1e-12:
                v.append(viol(f"C12/{mode}/centre-order{tag}",
                              f"reported centres are not the given ones in order (max offset {dsep.max():.3g} rad)"))
    if mode in ("centres", "create") and recs:
        keys = list(cat.keys())
        idx, margin = ref.ref_assign(np.array(recs), centres)
        ok = margin > 1e-9
        got = np.array(owner)
        want = np.array([keys[i] for i in idx])
        if np.any(got[ok] != want[ok]):
            k = int(np.nonzero((got != want) & ok)[0][0])
            v.append(viol(f"C12/{mode}/partition{tag}",
                          f"record {recs[k]} is stored in patch {got[k]} but its nearest reported centre is "
                          f"that of patch {want[k]}"))
    if input_rows is not None and total != input_rows:
        v.append(viol(f"C12/{mode}/records-lost", f"{total} records stored, {input_rows} given"))


def objects_for(N, layout, seed, weighted):
    # knife: objects 2e-5 ... 3e-7 deg (3.5e-7 ... 5e-9 rad) on either side of the border between two centres
    offs = {"single": [0.0], "spread": [0.0, 0.7, -2.5, 2.8, -2.8],
            "knife": [0.0, D / 2 - 2e-5, -(D / 2 - 2e-5), D / 2 - 4e-6, -(D / 2 - 4e-6), D / 2 - 1e-6, -(D / 2 - 1e-6),
                      D / 2 - 3e-7, -(D / 2 - 3e-7)]}
    objs = []
    empty = int(layout[5:]) if layout.startswith("empty") else None
    use = offs["spread"] if empty is not None else offs[layout]
    prime = iter([2, 3, 5, 7, 11, 13, 17, 19, 23, 29, 31, 37, 41, 43, 47, 53, 59, 61, 67, 71, 73, 79, 83, 89, 97, 101, 103,
                  107, 109, 113, 127, 131, 137, 139, 149, 151, 157, 163, 167, 173, 179, 181, 191, 193, 197, 199])
    for k in range(N):
        if k == empty:
            continue
        for t, off in enumerate(use):
            ra = k * D + off + worlds.jitter(seed, f"{k}{t}ra")
            dec = (0.4 if t % 2 else 0.0) + worlds.jitter(seed, f"{k}{t}dec")
            objs.append(dict(ra=ra, dec=dec, z=None, w=float(next(prime)) if weighted else None, name=f"o{k}{t}"))
    if weighted == "zero-outer":
        # the outermost objects of every patch carry weight 0 (masked objects kept in the table), one is negative
        for o in objs:
            if o["name"][-1] in "34":
                o["w"] = 0.0 if o["name"][-1] == "3" else -1.0
    return objs


def run_centres(case):
    world, N, perm = case["world"], case["N"], case["perm"]
    objs = objects_for(N, case["layout"], case["seed"], case["weighted"])
    if case.get("reverse"):
        objs = objs[::-1]
    cat_ref = worlds.realise(world, objs, N)
    cen = worlds.centres(world, N)[perm]  # permuted centre list handed to the library
    v = []
    d = runner.fresh_dir("c12")
    empty = case["layout"].startswith("empty")
    try:
        cat = worlds.make_catalog(d + "/cat", cat_ref, cen, chunksize=case.get("chunksize"))
    except Exception as e:
        if empty:
            return [], True  # raising for a centre without objects is what C09 asks for
        return [viol(f"C12/centres/exception:{type(e).__name__}", f"creation raised {yawx.exc_name(e)}", case)], True
    tag = "/empty-centre" if empty else ""
    check_catalog(cat, "centres", v, given_centres=cen, input_rows=len(objs), weighted=case["weighted"], tag=tag)
    # the caller reuses its centre array for something else afterwards: the catalog keeps the centres it was given
    cen0 = cen.copy()
    cen += 0.125
    check_catalog(cat, "centres", v, given_centres=cen0, input_rows=len(objs), weighted=case["weighted"],
                  tag=tag + "/after-caller-modified-its-array")
    cen = cen0
    # reopened catalog tells the same
    from yaw import Catalog

    check_catalog(Catalog(d + "/cat"), "centres", v, given_centres=cen, input_rows=len(objs), tag=tag + "/reopened")
    nontrivial = empty or (N >= 3 and perm != sorted(perm)) or case["layout"] == "spread"
    tag = tag  # (chunked/reversed inputs share the signatures of the unchunked ones)
    return v, nontrivial


def run_bigpatch(case):
    from yaw import Catalog

    n = case["n"]
    i = np.arange(n, dtype=float)
    ra = 20.0 + 0.5 * ((i * 0.6180339887) % 1.0)
    dec = 1.0 + 0.5 * ((i * 0.4142135623) % 1.0)
    ra[-5:] += 3.0  # outliers arriving last
    pid = np.zeros(n, dtype="i8")
    ra = np.concatenate([ra, [40.0, 40.2, 40.1]])
    dec = np.concatenate([dec, [0.0, 0.1, 0.3]])
    pid = np.concatenate([pid, [1, 1, 1]])
    d = runner.fresh_dir("c12b")
    v = []
    try:
        # three chunks: the outliers arrive with the last one and end up at the end of the patch's data file
        cat = yawx.make_catalog(d + "/cat", ra, dec, pid=pid, chunksize=2**19)
        for tag, c in (("", cat), ("/reopened", Catalog(d + "/cat"))):
            for p, patch in c.items():
                data = patch.load_data()
                cen = patch.meta.center
                s = np.asarray(ref.sep(data["ra"], data["dec"], cen.ra[0], cen.dec[0])).astype(float)
                r = float(patch.meta.radius.data[0])
                if patch.meta.num_records != len(data):
                    v.append(viol("C12/ids/num_records", f"patch {p}: {patch.meta.num_records} != {len(data)}"))
                if s.max() > r + 1e-12:
                    v.append(viol(f"C12/ids/radius/many-records{tag}",
                                  f"patch {p} with {len(data)} records: {int((s > r + 1e-12).sum())} records lie outside the "
                                  f"stored radius {r!r} (farthest {s.max()!r})"))
    except Exception as e:
        v.append(viol(f"C12/bigpatch/exception:{type(e).__name__}", yawx.exc_name(e)))
    return v, True


def run_random_centres(case):
    from yaw import AngularCoordinates, Catalog
    from yaw.randoms import BoxRandoms

    N = case["N"]
    cen = np.deg2rad(np.array([[12.0, 1.0], [16.0, -1.0]][:N]))
    gen = BoxRandoms(10.0, 18.0, -3.0, 3.0, seed=7)
    d = runner.fresh_dir("c12r")
    v = []
    try:
        cat = Catalog.from_random(d + "/cat", gen, 40, patch_centers=AngularCoordinates(cen.copy()), patch_num=3,
                                  probe_size=30, chunksize=case["chunksize"])
    except Exception as e:
        return [viol(f"C12/random-centres/exception:{type(e).__name__}", yawx.exc_name(e), case)], True
    check_catalog(cat, "centres", v, given_centres=cen, input_rows=40, tag="/from_random+patch_num")
    return v, True


def run_ids(case):
    N, seed = case["N"], case["seed"]
    objs = objects_for(N, "spread", seed, case["weighted"])
    n = len(objs)
    pid = [(i * (case["scramble"] + 1) + case["scramble"]) % N for i in range(n)]
    for k in range(N):  # every id must occur
        pid[k] = k
    d = runner.fresh_dir("c12")
    v = []
    try:
        cat = yawx.make_catalog(d + "/cat", [o["ra"] % 360 for o in objs], [o["dec"] for o in objs],
                                w=[o["w"] for o in objs] if case["weighted"] else None, pid=pid)
    except Exception as e:
        return [viol(f"C12/ids/exception:{type(e).__name__}", yawx.exc_name(e), case)], True
    check_catalog(cat, "ids", v, input_rows=n)
    for k in range(N):
        if k not in cat or cat[k].meta.num_records != pid.count(k):
            v.append(viol("C12/ids/wrong-patch", f"patch {k} should hold {pid.count(k)} records"))
    return v, True


def run_create(case):
    K, seed = case["K"], case["seed"]
    ra, dec = [], []
    for c in range(K):
        for t in range(12):
            ra.append(20.0 + 15.0 * c + 0.9 * np.cos(t) + worlds.jitter(seed, f"{c}{t}a") * 1e3)
            dec.append(-5.0 + 4.0 * c + 0.9 * np.sin(2.3 * t) + worlds.jitter(seed, f"{c}{t}b") * 1e3)
    w = [1.0 + 0.1 * i for i in range(len(ra))] if case["weighted"] else None
    d = runner.fresh_dir("c12")
    v = []
    try:
        cat = yawx.make_catalog(d + "/cat", ra, dec, w=w, patch_num=K)
    except Exception as e:
        return [viol(f"C12/create/exception:{type(e).__name__}", yawx.exc_name(e), case)], True
    if list(cat.keys()) != list(range(K)):
        v.append(viol("C12/create/keys", f"patch_num={K} gave patches {list(cat.keys())}"))
    check_catalog(cat, "create", v, input_rows=len(ra))
    return v, True


def two_catalogs(N, seed, ids_b=None, shift=None, bigger="reference"):
    """Reference-like catalog A and unknown-like catalog B in patch-id mode."""
    ra, dec, z, pid = [], [], [], []
    for k in range(N):
        for t, off in enumerate([0.0, 0.5, -0.5, 0.25]):
            ra.append(30.0 + 6.0 * k + off)
            dec.append(0.2 * (t % 2))
            z.append(0.15 + 0.1 * (t % 2))
            pid.append(k)
    A = dict(ra=ra, dec=dec, z=z, pid=pid)
    rb, db, pb = [], [], []
    ids = ids_b if ids_b is not None else list(range(N))
    for k in ids:
        for t, off in enumerate([0.1, 0.4, -0.4] + ([0.3, -0.3, 0.2] if bigger == "unknown" else [])):
            rb.append(30.0 + 6.0 * k + off + (shift[1] if shift and shift[0] == k else 0.0))
            db.append(0.1 * (t % 2))
            pb.append(k)
    return A, dict(ra=rb, dec=db, pid=pb)


def measure(A, B, d):
    import yaw

    ca = yawx.make_catalog(d + "/A", A["ra"], A["dec"], z=A["z"], pid=A["pid"])
    cb = yawx.make_catalog(d + "/B", B["ra"], B["dec"], pid=B["pid"])
    config = yaw.Configuration.create(rmin=0.1, rmax=1.0, unit="deg", edges=[0.1, 0.2, 0.3])
    return ca, cb, lambda: yaw.crosscorrelate(config, ca, cb, unk_rand=cb)


def run_refuse_ids(case):
    A, B = two_catalogs(case["N"], case["seed"], ids_b=case["ids"])
    d = runner.fresh_dir("c12")
    try:
        ca, cb, go = measure(A, B, d)
    except Exception:
        return [], True  # creation itself refused (e.g. non-contiguous ids): fine
    try:
        go()
    except Exception:
        return [], True
    return [viol("C12/refuse/id-sets-differ-accepted",
                 f"crosscorrelate accepted catalogs with patch ids {sorted(set(A['pid']))} and {case['ids']}", case)], True


def run_refuse_shift(case):
    N, k, f = case["N"], case["k"], case["factor"]
    A, B0 = two_catalogs(N, case["seed"], bigger=case.get("bigger", "reference"))
    # radii: A patches extend 0.5 deg, B 0.4 deg around their means; displace by f x the larger one
    shift = f * 0.6
    A, B = two_catalogs(N, case["seed"], shift=(k, shift), bigger=case.get("bigger", "reference"))
    if case["which"] == "reference":  # displace the reference catalog's patch instead
        A["ra"] = [r + (shift if p == k else 0.0) for r, p in zip(A["ra"], A["pid"])]
        B = B0
    d = runner.fresh_dir("c12")
    ca, cb, go = measure(A, B, d)
    ra_, rb_ = ca.get_radii().data[k], cb.get_radii().data[k]
    ca_c, cb_c = ca.get_centers().data[k], cb.get_centers().data[k]
    dist = float(ref.sep(ca_c[0], ca_c[1], cb_c[0], cb_c[1]))
    must_raise = dist > max(ra_, rb_) * (1 + 1e-9)
    must_pass = f == 0.0
    try:
        go()
        raised = None
    except Exception as e:
        raised = e
    v = []
    if must_raise and raised is None:
        v.append(viol(f"C12/refuse/displaced-centre-accepted/{case['which']}-displaced/{case.get('bigger')}-larger",
                      f"centres of patch {k} are {dist:.4f} rad apart, radii {ra_:.4f}/{rb_:.4f}: measurement "
                      f"did not refuse", case))
    if must_pass and raised is not None:
        v.append(viol(f"C12/refuse/aligned-refused/{type(raised).__name__}",
                      f"aligned catalogs refused: {yawx.exc_name(raised)}", case))
    if must_pass and raised is None and case["which"] == "unknown":
        # history: the aligned pair was measured; now another catalog (same ids, patch k displaced by 3 radii) is created
        # in the unknown catalog's directory and measured in the same process: must be refused like a fresh pair
        import yaw

        _, B2 = two_catalogs(N, case["seed"], shift=(k, 1.8), bigger=case.get("bigger", "reference"))
        cb2 = yawx.make_catalog(d + "/B", B2["ra"], B2["dec"], pid=B2["pid"], overwrite=True)
        config = yaw.Configuration.create(rmin=0.1, rmax=1.0, unit="deg", edges=[0.1, 0.2, 0.3])
        try:
            yaw.crosscorrelate(config, ca, cb2, unk_rand=cb2)
            v.append(viol("C12/refuse/displaced-centre-accepted/after-aligned-measurement",
                          f"after a measurement with aligned catalogs a catalog with patch {k} displaced by 1.8 deg, created "
                          f"in the same directory, was not refused", case))
        except Exception:
            pass
    return v, bool(must_raise or must_pass)


def run_refuse_single(case):
    """Both catalogs have exactly one object per patch at coordinates whose mean round-trips exactly (radius 0.0)."""
    import yaw

    N, k, shift = case["N"], case["k"], case["shift"]
    ras = [0.0, 90.0, 180.0][:N]
    d = runner.fresh_dir("c12")
    ca = yawx.make_catalog(d + "/A", ras, [0.0] * N, z=[0.15, 0.25, 0.15][:N], pid=list(range(N)))
    rb = [r + (shift if i == k else 0.0) for i, r in enumerate(ras)]
    cb = yawx.make_catalog(d + "/B", rb, [0.0] * N, pid=list(range(N)))
    config = yaw.Configuration.create(rmin=0.1, rmax=1.0, unit="deg", edges=[0.1, 0.2, 0.3])
    radii = (ca.get_radii().data[k], cb.get_radii().data[k])
    ca_c, cb_c = ca.get_centers().data[k], cb.get_centers().data[k]
    dist = float(ref.sep(ca_c[0], ca_c[1], cb_c[0], cb_c[1]))
    must_raise = dist > max(radii) * (1 + 1e-9) and dist > 1e-12
    try:
        yaw.crosscorrelate(config, ca, cb, unk_rand=cb)
        raised = None
    except Exception as e:
        raised = e
    v = []
    if must_raise and raised is None:
        v.append(viol("C12/refuse/displaced-centre-accepted/single-object-patches",
                      f"centres of patch {k} are {dist:.4f} rad apart, stored radii {radii}: measurement did not refuse", case))
    if shift == 0.0 and raised is not None:
        v.append(viol(f"C12/refuse/aligned-refused/{type(raised).__name__}/single-object-patches",
                      f"aligned single-object catalogs refused: {yawx.exc_name(raised)}", case))
    return v, True


def run_case(case):
    fn = {"centres": run_centres, "refuse-single": run_refuse_single, "ids": run_ids, "create": run_create, "refuse-ids": run_refuse_ids,
          "refuse-shift": run_refuse_shift, "random-centres": run_random_centres, "bigpatch": run_bigpatch}[case["part"]]
    viols, nontrivial = fn(case)
    res = dict(nontrivial=bool(nontrivial), key=case)
    if viols:
        uniq = {}
        for x in viols:
            uniq.setdefault(x["signature"], x)
        res.update(status="violation", violations=list(uniq.values()))
    return res
