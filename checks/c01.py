"""C01 - pair counts are exact and complete for every catalog and configuration.

Engine E1: small rigid worlds (vlib.worlds) x probe pair x filler layout x configuration;
both crosscorrelate (DD, DR, RD, RR) and autocorrelate (DD, DR, RR) run on real catalogs
created through Catalog.from_dataframe, compared cell by cell (scale, bin, patch i, patch j)
with an O(n^2) long-double reference.
"""

from __future__ import annotations

import itertools

import numpy as np

from vlib import runner, worlds, yawx

PROPERTY = "C01"
LEVEL = "exploration"
RULE = (
    "world rotation {equator, straddling RA=0, north pole | + south pole, pole on a patch border, generic} x "
    "patches {2,3} x probe a (position alphabet x z slot) in the reference sample x probe b (position) in "
    "the unknown sample x filler layout {one object per centre; dense-compact ref vs sparse-wide unknown; "
    "reverse; unknown larger in patch 0 but smaller in total} x configuration {binning (right/left closed, "
    "empty middle bin, zmin 0.01, z 1.6-6) x scale set (1,2,3,4 scales, also listed in non-ascending order) x unit (deg, arcmin, kpc, Mpc, kpc/h, "
    "Mpc/h; one Mpc configuration with a spatially closed LambdaCDM instance, measured after a decoy measurement with another unnamed LambdaCDM of equal scales; one Mpc configuration with bin centres below z=0.05 and an H0=100 cosmology) x separation weighting (none, alpha=-1 res 1/3/50, alpha=0.5 res 3)} x weights {on, off, mixed: reference and unknown randoms only, signed with an exactly cancelling pair}; also two-patch worlds with centres 100 deg and exactly 180 deg apart (probes next to the far border); both "
    "crosscorrelate (dd,dr,rd,rr) and autocorrelate (dd,dr,rr). Oracle: O(n^2) Vincenty long-double pair "
    "loop per (scale,bin,i,j) and per-bin per-patch weight sums. Skipped by rule: a pair within 1e-9 (rel.) "
    "of a scale/fine-bin limit or an object within 1e-9 rad of a Voronoi border. Non-trivial: the reference "
    "has >= 1 counted pair between different patches. Part linkage: PatchLinkage.iter_patch_id_pairs for every symmetric link graph on 2..5 patches, auto and cross: the linked pairs, each exactly once."
)
ASSUMPTIONS = [
    "catalogs are created sequentially with given centres and radian input, so the library stores exactly "
    "the coordinates the reference uses",
    "with separation weighting counts must equal c * reference with one positive constant c per (scale, bin) "
    "shared by dd/dr/rd/rr (the statement says 'in proportion'); the fine grid is res log-spaced bins between "
    "the smallest and largest limit plus the limits themselves",
]

WIDE = 100.0  # centre spacing of the wide world, degrees
QUICK_POS = ["c0", "c1", "b0", "b1", "w0"]
ALL_POS = ["c0", "c1", "b0", "b1", "w0", "n0", "n1", "f0", "f1"]

CONFIGS = {
    "quick": [
        dict(binning="B2r", scales="ang3", unit="deg", rweight=None, res=None, weighted=False),
        dict(binning="B2l", scales="ang1", unit="arcmin", rweight=None, res=None, weighted=True),
        dict(binning="B3", scales="ang4", unit="deg", rweight=None, res=None, weighted=True),
        dict(binning="B2r", scales="ang3", unit="kpc", rweight=None, res=None, weighted=True),
        dict(binning="lowz", scales="ang3", unit="Mpc", rweight=None, res=None, weighted=False),
        dict(binning="B2r", scales="ang2", unit="deg", rweight=-1.0, res=3, weighted=True),
        dict(binning="B2r", scales="ang3rev", unit="deg", rweight=-1.0, res=5, weighted=False),
        dict(binning="highz", scales="ang3", unit="Mpc", rweight=None, res=None, weighted=False, cosmo="curved"),
        # only the reference sample and the unknown randoms carry weights: every kind of pair (w x none, w x w,
        # none x none, none x w) occurs in one measurement
        dict(binning="B2r", scales="ang3", unit="deg", rweight=None, res=None, weighted="mixed"),
        # signed weights: the probe's weight cancels the weight of the reference object at the first centre
        # exactly (their tree has weight sum 0.0 whenever both fall into one patch and bin)
        dict(binning="B2r", scales="ang3", unit="deg", rweight=None, res=None, weighted="cancel"),
        # bin centres below z=0.05 with a cosmology of shorter distances than the default one
        dict(binning="lowz", scales="ang3", unit="Mpc", rweight=None, res=None, weighted=False, cosmo="h100"),
    ],
}
CONFIGS["thorough"] = CONFIGS["quick"] + [
    dict(binning="B2r", scales="ang3", unit="Mpc/h", rweight=None, res=None, weighted=False),
    dict(binning="B2l", scales="ang2", unit="kpc/h", rweight=None, res=None, weighted=True),
    dict(binning="highz", scales="ang3", unit="Mpc", rweight=None, res=None, weighted=True),
    dict(binning="B1", scales="ang4", unit="deg", rweight=None, res=None, weighted=False),
    dict(binning="B2r", scales="ang1", unit="deg", rweight=-1.0, res=1, weighted=False),
    dict(binning="B2r", scales="ang3", unit="deg", rweight=-1.0, res=50, weighted=True),
    dict(binning="B3", scales="ang2", unit="Mpc", rweight=0.5, res=3, weighted=True),
    dict(binning="lowz", scales="ang2", unit="kpc/h", rweight=None, res=None, weighted=True),
    dict(binning="B2l", scales="ang4", unit="deg", rweight=-1.0, res=3, weighted=False),
    dict(binning="B3", scales="ang3", unit="arcmin", rweight=None, res=None, weighted=False),
]


def cases(tier, seed):
    out = []
    if tier == "quick":
        world_np = [("equator", 2), ("straddle", 3), ("npole", 2)]
        fillers = ["F0", "F1", "F2"]
        pos = QUICK_POS
        zslots = [0, -1]
    else:
        world_np = [("equator", 2), ("straddle", 3), ("npole", 2), ("spole", 3), ("midpole", 2), ("generic", 3)]
        fillers = ["F0", "F1", "F2", "F3"]
        pos = ALL_POS
        zslots = [0, -1, "out"]
    for ci, conf in enumerate(CONFIGS[tier]):
        for (world, npatch), filler, pa, za, pb in itertools.product(world_np, fillers, pos, zslots, pos):
            rows = (0,) if tier == "quick" else (0, 1)
            for row in rows:
                if row == 1 and not (pa in ("b0", "w0") or pb in ("b1", "c1")):
                    continue  # second row only matters for the near-border / wide pairs
                out.append(dict(conf, world=world, npatch=npatch, filler=filler, pa=pa, za=za, pb=pb,
                                row=row, seed=seed, conf_id=ci))
        # very wide patches: two centres 100 deg apart, probes on the far side of the sphere next to the
        # Voronoi border (patch radii ~130 deg, so radius_i + radius_j + scale exceeds 180 deg)
        for (world, _), pa, za, pb in itertools.product(world_np, (-129.0, -129.6), zslots[:2], (-131.5, -130.4)):
            out.append(dict(conf, world=world, npatch=2, filler="F0", pa=pa, za=za, pb=pb, row=0, seed=seed,
                            conf_id=ci, wide=True))
        # two antipodal centres (exactly antipodal in floating point in the equator world): each patch is a
        # hemisphere, the probes sit next to the border 90 deg from both centres
        for (world, _), pa, za, pb in itertools.product(world_np, (89.0, 89.6), zslots[:2], (91.5, 90.4)):
            out.append(dict(conf, world=world, npatch=2, filler="F0", pa=pa, za=za, pb=pb, row=0, seed=seed,
                            conf_id=ci, wide=180.0))
    # every symmetric link graph on 2..5 patches: the patch pairs handed to the workers are the linked pairs, once each
    for n in (2, 3, 4, 5):
        out.append(dict(part="linkage", n=n))
    return out


def setup():
    yawx.sequential()
    import warnings

    warnings.simplefilter("ignore")


def zvals(binning):
    edges, _ = worlds.BINNINGS[binning]
    mids = [(a + b) / 2 for a, b in zip(edges[:-1], edges[1:])]
    if binning == "B3":
        mids = [mids[0], mids[2]]  # middle bin stays empty
    return mids, edges[0] * 0.5


def wide_spacing(case):
    return WIDE if case["wide"] is True else float(case["wide"])


def build_catalogs(case):
    """Object lists for R (reference), U (unknown), RR (reference randoms), UR (unknown randoms)."""
    seed, npatch = case["seed"], case["npatch"]
    mids, zout = zvals(case["binning"])
    cen_names = ["c0", "c1", "c2"][:npatch]
    if case.get("wide"):
        cen_names = [0.0, wide_spacing(case)]
    prime = iter([2, 3, 5, 7, 11, 13, 17, 19, 23, 29, 31, 37, 41, 43, 47, 53, 59, 61, 67, 71, 73, 79, 83,
                  89, 97, 101, 103, 107, 109, 113, 127, 131, 137, 139, 149, 151, 157, 163, 167, 173])
    W = case["weighted"]

    def has_w(tag):
        if W == "mixed":  # reference (tags R*, a) and unknown randoms (UR*) weighted, the others not
            return tag.startswith("UR") or tag == "a" or (tag.startswith("R") and not tag.startswith("RR"))
        return bool(W)

    def o(pos, z=None, tag="", row=0, dra=0.0):
        w = float(next(prime))
        if W == "cancel" and tag in ("R", "R0", "a") and (tag == "a" or pos == cen_names[0]):
            w = -3.0 if tag == "a" else 3.0
        ob = worlds.obj(pos, row=row, z=z, w=w if has_w(tag) else None, seed=seed, tag=tag)
        ob["ra"] += dra
        return ob

    def zc(i):
        return mids[i % len(mids)]

    R, U, RR, UR = [], [], [], []
    f = case["filler"]
    for i, c in enumerate(cen_names):
        if f == "F0":
            R.append(o(c, zc(i), "R"))
            U.append(o(c, None, "U"))
        elif f == "F1":  # dense-compact reference, sparse-wide unknown
            for k in range(3):
                R.append(o(c, zc(i + k), f"R{k}", dra=0.02 * (k - 1)))
            U.append(o(c, None, "U", dra=2.9))
        elif f == "F2":  # sparse-wide reference, dense-compact unknown
            R.append(o(c, zc(i), "R", dra=2.9))
            for k in range(3):
                U.append(o(c, None, f"U{k}", dra=0.02 * (k - 1)))
        else:  # F3: unknown has more records in patch 0 but fewer in total
            nR = 2 if i == 0 else 4
            nU = 3 if i == 0 else 1
            for k in range(nR):
                R.append(o(c, zc(i + k), f"R{k}", dra=0.02 * k))
            for k in range(nU):
                U.append(o(c, None, f"U{k}", dra=2.9 - 0.02 * k))
        RR.append(o(c, zc(i + 1), "RR", dra=0.31))
        UR.append(o(c, None, "UR", dra=-0.45))
    # probes
    za = zout if case["za"] == "out" else mids[case["za"]]
    R.append(o(case["pa"], za, "a", row=case["row"]))
    U.append(o(case["pb"], None, "b"))
    if case.get("wide"):
        border = wide_spacing(case) / 2.0 + (-180.0 if wide_spacing(case) == WIDE else 0.0)
        RR.append(o(border + 1.3, mids[0], "RRx"))
        UR.append(o(border - 1.0, None, "URx", row=1))
    else:
        RR.append(o("n0", mids[0], "RRx"))
        UR.append(o("b1", None, "URx", row=1))
    return R, U, RR, UR


def viol(sig, what, detail=None):
    return dict(signature=sig, what=what, detail=detail)


def compare(kind, mode, lib_nc, refres, case, weighted_sep, cfacts):
    """Compare one NormalisedCounts list (per scale) with the reference."""
    out = []
    S = len(lib_nc)
    ref_counts = refres["counts"]
    for s in range(S):
        got = lib_nc[s].counts.counts  # (B, N, N)
        want = ref_counts[s]
        if got.shape != want.shape:
            out.append(viol(f"C01/{mode}/{kind}/shape", f"count array shape {got.shape} != {want.shape}"))
            return out
        if weighted_sep:
            for b in range(want.shape[0]):
                nz = want[b] != 0
                if not np.array_equal(got[b] != 0, nz):
                    out.append(viol(f"C01/{mode}/{kind}/weighted-cells/{cfacts}",
                                    f"{kind} scale {s} bin {b}: non-zero cells differ from the reference"))
                    continue
                if nz.any():
                    c = cfacts_const.setdefault((mode, s, b), float(got[b][nz].ravel()[0] / want[b][nz].ravel()[0]))
                    if not (c > 0 and np.allclose(got[b], c * want[b], rtol=1e-9, atol=0)):
                        out.append(viol(f"C01/{mode}/{kind}/weighted-proportion/{cfacts}",
                                        f"{kind} scale {s} bin {b}: counts are not c*sum(w w r^alpha) with the "
                                        f"constant {c} seen first for this scale and bin"))
            continue
        if np.allclose(got, want, rtol=1e-9, atol=1e-12):
            continue
        bad = np.argwhere(~np.isclose(got, want, rtol=1e-9, atol=1e-12))
        b, i, j = (int(x) for x in bad[0])
        pair_missing = i != j and not got[:, i, j].any() and all(
            not lib_nc[t].counts.counts[:, i, j].any() for t in range(S))
        if pair_missing:
            why = "patch-pair-never-counted"
        elif i == j:
            why = "same-patch-count"
        else:
            why = "cross-patch-count"
        sig = f"C01/{why}/{zfact(case)}" + ("/wide-patches" if case.get("wide") else "") if pair_missing else f"C01/{mode}/{kind}/{why}/{cfacts}"
        out.append(viol(sig,
                        f"{mode} {kind} scale {s} bin {b} patches ({i},{j}): counted {got[b, i, j]!r}, "
                        f"reference {want[b, i, j]!r} ({why}; {cfacts})",
                        dict(case=case, got=got.tolist(), want=want.tolist())))
        break
    sw = lib_nc[0].sum_weights
    if not (np.allclose(sw.sum_weights1, refres["sw1"], rtol=1e-12, atol=0)
            and np.allclose(sw.sum_weights2, refres["sw2"], rtol=1e-12, atol=0)):
        out.append(viol(f"C01/{mode}/{kind}/sum-weights",
                        f"{mode} {kind} per-bin per-patch weight sums {sw.sum_weights1.tolist()} / "
                        f"{sw.sum_weights2.tolist()} != {refres['sw1'].tolist()} / {refres['sw2'].tolist()}"))
    return out


cfacts_const = {}


def zfact(case):
    """Discriminating fact for a lost patch pair, computed from the configuration alone."""
    edges, _ = worlds.BINNINGS[case["binning"]]
    cosmo = case.get("cosmo", "Planck15")
    rmin, rmax = worlds.scale_config(case["scales"], case["unit"], case["binning"], cosmo)
    at_limit = max(worlds.ref_angles(rmin, rmax, case["unit"], max(edges[0], 0.05), cosmo)[1])
    mids = [(a + b) / 2 for a, b in zip(edges[:-1], edges[1:])]
    at_mids = max(max(worlds.ref_angles(rmin, rmax, case["unit"], z, cosmo)[1]) for z in mids)
    return ("angle-at-bin-centre-exceeds-angle-at-max(zmin,0.05)" if at_mids > at_limit * (1 + 1e-12)
            else "angle-largest-at-max(zmin,0.05)")


def run_linkage(case):
    """PatchLinkage.iter_patch_id_pairs over all symmetric link graphs with n labelled patches."""
    import yaw
    from yaw.correlation.measurements import PatchLinkage

    n = case["n"]
    config = yaw.Configuration.create(rmin=0.1, rmax=1.0, unit="deg", edges=[0.1, 0.2])
    pairs = list(itertools.combinations(range(n), 2))
    viols, graphs = [], 0
    for mask in range(2 ** len(pairs)):
        links = {i: {i} for i in range(n)}
        for k, (i, j) in enumerate(pairs):
            if mask >> k & 1:
                links[i].add(j)
                links[j].add(i)
        graphs += 1
        for auto in (False, True):
            want = sorted([(i, j) for i in links for j in links[i] if not auto or j >= i])
            try:
                got = sorted(PatchLinkage(config, {i: set(s) for i, s in links.items()}).iter_patch_id_pairs(auto=auto))
            except Exception as e:
                viols.append(viol(f"C01/linkage/exception:{type(e).__name__}", f"links {links}, auto={auto}: {yawx.exc_name(e)}"))
                continue
            if got != want:
                missing = sorted(set(want) - set(got))
                extra = [p for p in got if got.count(p) > 1 or p not in want]
                viols.append(viol("C01/linkage/" + ("pairs-missing" if missing else "pairs-repeated-or-unlinked"),
                                  f"patch links {links} (auto={auto}): linked pairs {missing} are never counted, "
                                  f"pairs {sorted(set(extra))} are counted twice or without a link"))
        if len(viols) > 3:
            break
    res = dict(nontrivial=True, key=case, counters=dict(link_graphs=graphs, pipelines=0, reference_cross_patch_pairs=0))
    if viols:
        uniq = {}
        for x in viols:
            uniq.setdefault(x["signature"], x)
        res.update(status="violation", violations=list(uniq.values()))
    return res


def run_case(case):
    import yaw

    if case.get("part") == "linkage":
        return run_linkage(case)

    cfacts_const.clear()
    world, npatch = case["world"], case["npatch"]
    edges, closed = worlds.BINNINGS[case["binning"]]
    cosmo = case.get("cosmo", "Planck15")
    rmin, rmax = worlds.scale_config(case["scales"], case["unit"], case["binning"], cosmo)
    objs = build_catalogs(case)
    spacing = wide_spacing(case) if case.get("wide") else worlds.D
    cats = [worlds.realise(world, o, npatch, spacing) for o in objs]
    if min(float(c["margin"].min()) for c in cats) < 1e-9:
        return dict(status="skip", skip_rule="object within 1e-9 rad of a Voronoi border")
    if any(len(set(c["patch"].tolist())) < npatch for c in cats):
        return dict(status="skip", skip_rule="a centre attracts no object (C12's business)")
    R, U, RR, UR = cats
    mids = [(a + b) / 2 for a, b in zip(edges[:-1], edges[1:])]
    angles = [worlds.ref_angles(rmin, rmax, case["unit"], z, cosmo) for z in mids]
    common = dict(edges=edges, closed=closed, npatch=npatch, angles=angles, rweight=case["rweight"],
                  res=case["res"])
    refs = dict(
        cross=dict(dd=worlds.ref_paircounts(R, U, binned1=True, binned2=False, **common),
                   dr=worlds.ref_paircounts(R, UR, binned1=True, binned2=False, **common),
                   rd=worlds.ref_paircounts(RR, U, binned1=True, binned2=False, **common),
                   rr=worlds.ref_paircounts(RR, UR, binned1=True, binned2=False, **common)),
        auto=dict(dd=worlds.ref_paircounts(R, R, binned1=True, binned2=True, auto=True, **common),
                  dr=worlds.ref_paircounts(R, RR, binned1=True, binned2=True, **common),
                  rr=worlds.ref_paircounts(RR, RR, binned1=True, binned2=True, auto=True, **common)),
    )
    if any(r["near_limit"] for m in refs.values() for r in m.values()):
        return dict(status="skip", skip_rule="pair separation within 1e-9 (relative) of a scale or fine-bin limit")

    cen = worlds.centres(world, npatch, spacing)
    d = runner.fresh_dir("c01")
    lib = [worlds.make_catalog(f"{d}/{name}", c, cen) for name, c in zip(("R", "U", "RR", "UR"), cats)]
    cR, cU, cRR, cUR = lib
    config = yaw.Configuration.create(rmin=rmin, rmax=rmax, unit=case["unit"], edges=edges, closed=closed,
                                      rweight=case["rweight"], resolution=case["res"],
                                      **(dict(cosmology=worlds.cosmo_of(cosmo)) if "cosmo" in case else {}))
    unitkind = "angular" if case["unit"] in ("deg", "arcmin") else "physical"
    cfacts = f"{case['binning']}/{unitkind}/{case['filler']}" + ("/wide-patches" if case.get("wide") else "")
    viols = []
    wsep = case["rweight"] is not None
    if "cosmo" in case:
        # an earlier measurement in the same process with the same scales and binning but another unnamed cosmology of
        # the same class: nothing of it may leak into the measurement that is checked
        import astropy.cosmology as ac

        decoy = config.modify(cosmology=ac.LambdaCDM(H0=70.0, Om0=0.3, Ode0=0.5))
        try:
            yaw.crosscorrelate(decoy, cR, cU, ref_rand=cRR, unk_rand=cUR)
        except Exception:
            pass
    try:
        cfs = yaw.crosscorrelate(config, cR, cU, ref_rand=cRR, unk_rand=cUR)
        for kind in ("dd", "dr", "rd", "rr"):
            viols += compare(kind, "cross", [getattr(cf, kind) for cf in cfs], refs["cross"][kind], case,
                             wsep, cfacts)
    except Exception as e:
        viols.append(viol(f"C01/cross/exception:{type(e).__name__}/{cfacts}",
                          f"crosscorrelate raised {yawx.exc_name(e)}", case))
    try:
        cfs = yaw.autocorrelate(config, cR, cRR, count_rr=True)
        for kind in ("dd", "dr", "rr"):
            viols += compare(kind, "auto", [getattr(cf, kind) for cf in cfs], refs["auto"][kind], case,
                             wsep, cfacts)
        for cf in cfs:
            for kind in ("dd", "rr"):
                arr = getattr(cf, kind).counts.counts
                if np.tril(arr, -1).any():
                    viols.append(viol(f"C01/auto/{kind}/lower-triangle", "autocorrelation counts below the diagonal"))
    except Exception as e:
        viols.append(viol(f"C01/auto/exception:{type(e).__name__}/{cfacts}",
                          f"autocorrelate raised {yawx.exc_name(e)}", case))
    ncross = sum(r["cross_pairs"] for m in refs.values() for r in m.values())
    res = dict(nontrivial=ncross > 0, key=case,
               counters=dict(reference_cross_patch_pairs=ncross, pipelines=2),
               outcomes=[runner.digest([refs["cross"]["dd"]["counts"].tolist()])])
    if viols:
        uniq = {}
        for x in viols:
            uniq.setdefault(x["signature"], x)
        res.update(status="violation", violations=list(uniq.values()))
    return res
