"""C11 - every persisted product reads back equal to what was written.

Engine E1 over (1) CorrFunc HDF5 for every member subset / shape / content incl. all-zero,
(2) Configuration YAML over the parameter product, (3) CorrData / RedshiftData / HistData
text files over a value alphabet incl. NaN/inf and a single bin, (4) patch Metadata YAML
over special floats, (5) catalog cache reopen.
"""

from __future__ import annotations

import itertools
import math
import os
import warnings

import numpy as np

from checks import c04, c15
from vlib import containers as C
from vlib import ref, runner, yawx

PROPERTY = "C11"
LEVEL = "exploration"
RULE = (
    "hdf: member subsets(7) x bins{1,2,3} x patches{2,3} x auto/cross x closed x contents{dense fingerprint, "
    "sparse, all-zero, zero-rr, negative/fractional, cancelling, whole numbers with entries >= 2^31 / 2^53 or +-inf, auto containers with two different weight arrays, auto containers with counts below the diagonal}; yaml: method x closed x unit(8) x scales{single, list of 1, "
    "list of 3, 2 nested} x rweight/resolution x cosmology names(3) x (zmin,zmax,num_bins) incl. non-representable decimals, "
    "custom edges, max_workers; text: classes{CorrData,RedshiftData,HistData} x bins{1,2,3} x samples{2,3} x "
    "value alphabet {0,+-1e-12,+-0.123456789,+-12345.678,+-1e9,nan,+-inf} placed in every position; metadata: "
    "special floats and right ascensions outside [0,2pi); hdf: PatchedCounts of 181, 182, 200, 300 patches (pair index beyond 16 bit); the same path written again with another product and read again; cache: reopen; prefix: every ordered pair of two products written side by side under the path prefixes {prod, nz_0.1, nz_0.2, run.v2.final, nz_0, a.b}, each must read back as itself. Non-trivial: anything but the plain dense/linear/default case. Oracle: "
    "own snapshot comparison plus the library's ==, identical sample(), bit-identical edges."
)
ASSUMPTIONS = [
    "text files keep d = 10 - len(sign+integer part) - 1 decimals (truncated), so |read - written| <= 10^-d; "
    "bin edges in the text alphabet have <= 4 decimals and must read back exactly",
    "a CustomCosmology cannot be serialised (documented); raising is accepted there",
]

VALUES = [0.0, 1e-12, -1e-12, 0.123456789, -0.123456789, 12345.678, -12345.678, 1e9, -1e9,
          float("nan"), float("inf"), float("-inf"), 1.5]
ZSPECS = ((0.1, 1.0, 3), (0.07, 1.3, 7), (0.01, 0.03, 2), (0.15, 0.7, 1), (1 / 3, 2 / 3, 4))


def cases(tier, seed):
    out = []
    for members, B, N, auto, closed, content in itertools.product(
            C.MEMBER_SUBSETS, (1, 2, 3), (2, 3), (False, True), ("right", "left"),
            ("fp", "sparse", "zero", "zero-rr", "neg", "cancel", "bigint", "infint", "swdiff", "lower")):
        if content in ("swdiff", "lower") and not auto:
            continue  # (cross containers have different weight arrays / full matrices anyway)
        if tier != "thorough" and closed == "left" and content not in ("fp", "zero"):
            continue
        out.append(dict(part="hdf", members=list(members), B=B, N=N, auto=auto, closed=closed,
                        content=content))
    for method, closed, unit, sc, rw, cosmo, zs in itertools.product(
            c15.METHODS, ("right", "left"), c15.UNIT_SCALES, ("single", "list1", "list3", "nested"),
            c15.RW, ("Planck15", "WMAP9", "Planck13"), ZSPECS):
        if sc == "nested" and tier != "thorough" and (method != "linear" or cosmo != "Planck15" or rw != c15.RW[0]):
            continue
        if tier != "thorough":
            # quick: pairwise-complete slice (every value of every parameter with every method)
            if (unit not in ("kpc", "deg", "Mpc/h")) and (sc != "single" or rw != c15.RW[0] or cosmo != "Planck15"):
                continue
            if method == "comoving" and (sc == "list3" and rw != c15.RW[0]):
                continue
        lo, hi = c15.UNIT_SCALES[unit]
        if sc == "single":
            rmin, rmax = lo, hi
        elif sc == "list1":
            rmin, rmax = [lo], [hi]
        elif sc == "nested":
            rmin, rmax = c15.scales_for(unit, "nested")
        else:
            rmin, rmax = c15.scales_for(unit, True)
        out.append(dict(part="yaml", params=dict(
            rmin=rmin, rmax=rmax, unit=unit, rweight=rw[0], resolution=rw[1], zmin=zs[0], zmax=zs[1],
            num_bins=zs[2], method=method, closed=closed, cosmology=cosmo)))
    for closed, cosmo, mw in itertools.product(("right", "left"), ("Planck15", "WMAP9", "custom"), (None, 4)):
        out.append(dict(part="yaml", params=dict(rmin=100.0, rmax=1000.0, edges=[0.1, 0.2, 1 / 3, 0.9],
                                                 closed=closed, cosmology=cosmo, max_workers=mw)))
    for cls, B, M, closed in itertools.product(("CorrData", "RedshiftData", "HistData"), (1, 2, 3), (2, 3),
                                               ("right", "left")):
        out.append(dict(part="text", cls=cls, B=B, M=M, closed=closed, special=None))
        for val in VALUES:
            for pos in range(B):
                for where in ("data", "samples"):
                    out.append(dict(part="text", cls=cls, B=B, M=M, closed=closed,
                                    special=dict(value=val, pos=pos, where=where)))
    # two products written next to each other under different documented path prefixes ([prefix].{dat,smp,cov})
    names = ("prod", "nz_0.1", "nz_0.2", "run.v2.final", "nz_0", "a.b")
    for p1, p2 in itertools.permutations(names, 2):
        out.append(dict(part="prefix", cls="CorrData", first=p1, second=p2))
    out.append(dict(part="prefix", cls="RedshiftData", first="nz_0.1", second="nz_0.2"))
    out.append(dict(part="prefix", cls="HistData", first="nz_0.1", second="nz_0.2"))
    specials = [0.0, 1e-300, 5e-324, math.pi, 0.1 + 0.2, 1e22, 1.7976931348623157e308, 2 * math.pi - 1e-16,
                1 / 3, 123456789.123456789]
    for a, b, c_ in itertools.product(specials, repeat=3):
        if tier != "thorough" and (a, b, c_).count(0.0) < 1 and not (a == b == c_):
            continue
        out.append(dict(part="meta", num_records=7, sum_weights=a, ra=min(b, 6.0) if b < 7 else 1.0,
                        dec=min(c_, 1.5) if c_ < 2 else 0.5, radius=b if b < 3.2 else 0.25))
    for N in (181, 182, 200, 300):
        out.append(dict(part="hdf-many-patches", N=N))
    for ra in (-0.5, -3.0, 7.0, 2 * math.pi):
        out.append(dict(part="meta", num_records=7, sum_weights=3.5, ra=ra, dec=0.25, radius=0.125))
    for w, z in itertools.product((False, True), repeat=2):
        out.append(dict(part="cache", weighted=w, with_z=z))
    return out


def setup():
    yawx.sequential()
    warnings.simplefilter("ignore")


def viol(sig, what, detail=None):
    return dict(signature=sig, what=what, detail=detail)


def run_hdf(case):
    import yaw

    content = case["content"]
    cf = c04.make_cf(case["B"], case["N"], case["auto"], case["members"],
                     content if content in ("fp", "sparse", "zero-rr") else "fp", "uneq", case["closed"])
    if content in ("zero", "neg", "cancel", "bigint", "infint", "swdiff", "lower"):
        kw = {}
        for m, nc in cf.to_dict().items():
            cnt = nc.counts.counts * (0.0 if content == "zero" else -0.37)
            if content == "cancel":  # signed counts (negative weights) that sum to zero over the bins of one patch pair
                cnt = nc.counts.counts.copy()
                cnt[:, 0, -1] = ([3.0, -3.0, 0.0] if case["B"] == 3 else [2.5, -2.5] if case["B"] == 2 else [0.0])
                cnt[:, -1, -1] = ([-1.0, -1.0, 2.0] if case["B"] == 3 else [-4.0, 4.0] if case["B"] == 2 else [7.0])
            if content in ("bigint", "infint"):
                # whole-number counts (unweighted catalogs) with entries beyond 2^31 / 2^53, or infinite entries
                cnt = np.rint(nc.counts.counts)
                big = [3.0e9, 2.0**31, 2.0**53 + 2.0] if content == "bigint" else [np.inf, -np.inf, 2.0**31 - 1.0]
                cnt[0, 0, -1], cnt[-1, -1, -1], cnt[0, 0, 0] = big
            sw2 = nc.sum_weights.sum_weights2
            if content == "swdiff":  # an auto container whose two weight arrays differ: both must come back
                cnt = nc.counts.counts.copy()
                sw2 = sw2 * 1.5 + 0.25
            if content == "lower":  # an auto container with counts below the diagonal (e.g. patches in reverse order)
                cnt = nc.counts.counts.copy()
                cnt = cnt + 0.5 * np.transpose(cnt, (0, 2, 1))[:, ::-1, ::-1][:, ::-1, ::-1] + np.tril(np.ones_like(cnt[0]), -1) * 3.0
            kw[m] = C.make_norm(case["B"], case["N"], nc.auto, closed=case["closed"], counts=cnt,
                                sw1=nc.sum_weights.sum_weights1, sw2=sw2)
        cf = yaw.CorrFunc(**kw)
    before = C.snap(cf)
    path = os.path.join(runner.fresh_dir("c11"), "cf.hdf")
    tag = f"{content}/{'+'.join(case['members'])}"
    v = []
    try:
        cf.to_file(path)
        back = yaw.CorrFunc.from_file(path)
    except Exception as e:
        return [viol(f"C11/hdf/exception:{type(e).__name__}/{content}",
                     f"CorrFunc HDF5 round trip raised {yawx.exc_name(e)} ({tag})")], True
    after = C.snap(back)
    # another object written to the same path and read again in the same process: the file decides, not a memory
    if case["B"] == 2 and content == "fp":
        try:
            other = c04.make_cf(case["B"], case["N"], case["auto"], case["members"], "sparse", "uneq", case["closed"])
            other.to_file(path)
            back2 = yaw.CorrFunc.from_file(path)
            if not C.snap_equal(C.snap(other), C.snap(back2)):
                return [viol("C11/hdf/stale-after-overwrite", "after another CorrFunc was written to the same path from_file "
                             "still returns the first one")], True
        except Exception as e:
            return [viol(f"C11/hdf/overwrite-exception:{type(e).__name__}", yawx.exc_name(e))], True
    if not C.snap_equal(before, after):
        diff = [m for m in ("dd", "dr", "rd", "rr") if not C.snap_equal(before[m], after[m])]
        v.append(viol(f"C11/hdf/differs/{content}", f"CorrFunc read back differs in {diff} ({tag}, "
                      f"B={case['B']} N={case['N']} auto={case['auto']})"))
    try:
        if not (back == cf) or (back != cf):
            v.append(viol(f"C11/hdf/not-equal/{content}", f"restored CorrFunc != original by == ({tag})"))
    except Exception as e:
        v.append(viol(f"C11/hdf/eq-exception:{type(e).__name__}", yawx.exc_name(e)))
    if not ("rr" in case["members"] and "dr" not in case["members"]):
        a, b = cf.sample(), back.sample()
        if not (np.array_equal(a.data, b.data, equal_nan=True)
                and np.array_equal(a.samples, b.samples, equal_nan=True)):
            v.append(viol(f"C11/hdf/sample-differs/{content}", "sample() differs after the round trip"))
    if not C.snap_equal(C.snap(cf), before):
        v.append(viol("C11/hdf/mutates", "to_file changed the object"))
    return v, content != "fp" or case["closed"] == "left"


def run_yaml(case):
    import yaw

    P = case["params"]
    try:
        conf = yaw.Configuration.create(**c15.realise(P))
    except Exception as e:
        return [viol(f"C11/yaml/create-exception:{type(e).__name__}", yawx.exc_name(e), P)], True
    path = os.path.join(runner.fresh_dir("c11"), "conf.yml")
    tag = f"{P.get('method', 'custom')}/{P.get('cosmology')}"
    try:
        conf.to_file(path)
        back = yaw.Configuration.from_file(path)
    except Exception as e:
        if P.get("cosmology") == "custom":
            return [], False  # documented: custom cosmologies cannot be serialised
        return [viol(f"C11/yaml/exception:{type(e).__name__}/{tag}",
                     f"Configuration YAML round trip raised {yawx.exc_name(e)}", P)], True
    v = []
    if not np.array_equal(conf.binning.edges, back.binning.edges):
        d = float(np.abs(conf.binning.edges - back.binning.edges).max()) if len(conf.binning.edges) == len(back.binning.edges) else None
        v.append(viol(f"C11/yaml/edges-differ/{P.get('method', 'custom')}",
                      f"bin edges differ after the YAML round trip (max |delta| = {d}) for {tag}", P))
    diff = c15.same_meaning(c15.describe(conf), c15.describe(back), tol=0.0)
    if diff is not None and diff != "edges":
        v.append(viol(f"C11/yaml/{diff}-differs", f"{diff} differs after the YAML round trip: "
                      f"{c15.describe(conf)[diff]} -> {c15.describe(back)[diff]}", P))
    try:
        if not (conf == back) and not v:
            v.append(viol("C11/yaml/not-equal", "restored configuration != original by ==", P))
    except Exception as e:
        v.append(viol(f"C11/yaml/eq-exception:{type(e).__name__}", yawx.exc_name(e)))
    if back.cosmology.name != conf.cosmology.name:
        v.append(viol("C11/yaml/cosmology-differs", f"{conf.cosmology.name} -> {back.cosmology.name}"))
    return v, P.get("method", "custom") != "linear" or P.get("cosmology") != "Planck15"


def kept_decimals(x):
    if not math.isfinite(x):
        return None
    s = f"{x: .10f}"
    head = len(s.split(".")[0])
    return max(0, 10 - head - 1)


def run_hdf_many(case):
    """PatchedCounts with N >= 182 patches (N*N exceeds 16-bit index ranges) through HDF5."""
    from yaw.correlation.paircounts import PatchedCounts

    N = case["N"]
    i, j = np.meshgrid(np.arange(N), np.arange(N), indexing="ij")
    counts = (((3 * i + 7 * j) % 13 == 0) * ((i * 31 + j) % 97 + 1)).astype(float)[None, :, :]  # sparse, distinct values
    x = PatchedCounts(C.make_binning(1), counts, auto=False)
    path = os.path.join(runner.fresh_dir("c11m"), "pc.hdf")
    try:
        x.to_file(path)
        back = PatchedCounts.from_file(path)
    except Exception as e:
        return [viol(f"C11/hdf-many/exception:{type(e).__name__}", f"{N} patches: {yawx.exc_name(e)}")], True
    if back.counts.shape != counts.shape or not np.array_equal(back.counts, counts):
        n = int((back.counts != counts).sum()) if back.counts.shape == counts.shape else -1
        return [viol("C11/hdf/differs/many-patches", f"PatchedCounts with {N} patches: {n} count cells differ after the HDF5 round trip")], True
    return [], True


def run_prefix(case):
    import yaw

    cls = getattr(yaw, case["cls"])
    binning = C.make_binning(2, "uneq", "right")
    objs = {}
    for name, salt in ((case["first"], 0.0), (case["second"], 4.0)):
        data = np.array([0.5, 0.75]) + salt
        samples = np.array([[0.625, 0.875], [0.375, 0.5]]) + salt
        objs[name] = cls(binning, data, samples)
    d = runner.fresh_dir("c11p")
    v = []
    try:
        for name, obj in objs.items():
            obj.to_files(os.path.join(d, name))
        for name, obj in objs.items():
            back = cls.from_files(os.path.join(d, name))
            if not (np.allclose(back.data, obj.data, atol=1e-9) and np.allclose(back.samples, obj.samples, atol=1e-9)):
                v.append(viol("C11/text/prefix-collision",
                              f"{case['cls']} written to '{name}' reads back as another product after a second product "
                              f"was written to '{[n for n in objs if n != name][0]}' in the same directory "
                              f"(files present: {sorted(os.listdir(d))})"))
                break
    except Exception as e:
        v.append(viol(f"C11/text/prefix-exception:{type(e).__name__}", f"{case}: {yawx.exc_name(e)}"))
    return v, True


def run_text(case):
    import yaw

    cls = getattr(yaw, case["cls"])
    B, M = case["B"], case["M"]
    binning = C.make_binning(B, "uneq", case["closed"])
    data = np.array([0.5 + 0.25 * b for b in range(B)])
    samples = np.array([[0.5 + 0.25 * b + 0.125 * (k + 1) for b in range(B)] for k in range(M)])
    sp = case["special"]
    if sp is not None:
        if sp["where"] == "data":
            data[sp["pos"]] = sp["value"]
        else:
            samples[M - 1, sp["pos"]] = sp["value"]
    x = cls(binning, data.copy(), samples.copy())
    prefix = os.path.join(runner.fresh_dir("c11"), "prod")
    tag = f"{case['cls']}/B={B}"
    try:
        with np.errstate(all="ignore"):
            x.to_files(prefix)
        back = cls.from_files(prefix)
    except Exception as e:
        kind = "single-bin" if B == 1 else "multi-bin"
        return [viol(f"C11/text/exception:{type(e).__name__}/{kind}",
                     f"{case['cls']} text round trip raised {yawx.exc_name(e)} (bins={B}, samples={M}, "
                     f"special={sp})")], True
    v = []
    if not isinstance(back, cls):
        v.append(viol("C11/text/type", f"restored type {type(back).__name__}"))
    if not np.array_equal(back.binning.edges, binning.edges) or str(back.binning.closed) != case["closed"]:
        v.append(viol("C11/text/binning", f"binning {back.binning.edges.tolist()}/{back.binning.closed} != "
                      f"{binning.edges.tolist()}/{case['closed']}"))

    def cmp(name, got, want):
        got, want = np.asarray(got, dtype=float), np.asarray(want, dtype=float)
        if got.shape != want.shape:
            v.append(viol(f"C11/text/{name}-shape", f"{name} shape {got.shape} != {want.shape} ({tag})"))
            return
        for g, w in zip(got.ravel(), want.ravel()):
            d = kept_decimals(float(w))
            if d is None:
                ok = (math.isnan(w) and math.isnan(g)) or g == w
            else:
                ok = math.isfinite(g) and abs(g - w) <= 10.0**-d * 1.0000001
            if not ok:
                v.append(viol(f"C11/text/{name}-value", f"{name} value {w!r} read back as {g!r} ({tag})"))
                return

    cmp("data", back.data, data)
    cmp("samples", back.samples, samples)
    return v, bool(B == 1 or sp is not None)


def run_meta(case):
    from yaw import AngularCoordinates, AngularDistances
    from yaw.catalog.patch import Metadata

    m = Metadata(num_records=case["num_records"], sum_weights=case["sum_weights"],
                 center=AngularCoordinates([case["ra"], case["dec"]]),
                 radius=AngularDistances(case["radius"]))
    path = os.path.join(runner.fresh_dir("c11"), "meta.yml")
    try:
        m.to_file(path)
        b = Metadata.from_file(path)
    except Exception as e:
        return [viol(f"C11/meta/exception:{type(e).__name__}", yawx.exc_name(e), case)], True
    v = []
    pairs = [("num_records", b.num_records, case["num_records"]), ("sum_weights", b.sum_weights, case["sum_weights"]),
             ("ra", float(b.center.ra[0]), case["ra"]), ("dec", float(b.center.dec[0]), case["dec"]),
             ("radius", float(b.radius.data[0]), case["radius"])]
    for name, got, want in pairs:
        if not (got == want and type(got) is type(want)):
            v.append(viol(f"C11/meta/{name}", f"{name} {want!r} read back as {got!r}", case))
    return v, True


def run_cache(case):
    from yaw import Catalog

    n = 9
    ra = [10.0 + 0.37 * i for i in range(n)]
    dec = [-3.0 + 0.71 * i for i in range(n)]
    z = [0.1 + 0.05 * i for i in range(n)] if case["with_z"] else None
    w = [float(p) / 3.0 for p in C.PRIMES[:n]] if case["weighted"] else None
    pid = [i % 3 for i in range(n)]
    d = runner.fresh_dir("c11c")
    cat = yawx.make_catalog(d + "/cat", ra, dec, z=z, w=w, pid=pid)
    back = Catalog(d + "/cat")
    v = []
    if list(cat.keys()) != list(back.keys()):
        return [viol("C11/cache/keys", f"{list(cat.keys())} -> {list(back.keys())}")], True
    for k in cat.keys():
        a, b = cat[k], back[k]
        if not np.array_equal(a.load_data(), b.load_data()) or a.load_data().dtype != b.load_data().dtype:
            v.append(viol("C11/cache/data", f"patch {k} data differ after reopening"))
        ma, mb = a.meta, b.meta
        same = (ma.num_records == mb.num_records and ma.sum_weights == mb.sum_weights
                and np.array_equal(ma.center.data, mb.center.data)
                and np.array_equal(ma.radius.data, mb.radius.data))
        if not same:
            v.append(viol("C11/cache/meta", f"patch {k} metadata differ after reopening: {ma} -> {mb}"))
        if (a.has_weights, a.has_redshifts) != (b.has_weights, b.has_redshifts):
            v.append(viol("C11/cache/columns", "optional columns differ after reopening"))
    return v, True


def run_case(case):
    fn = dict(hdf=run_hdf, yaml=run_yaml, text=run_text, meta=run_meta, cache=run_cache, prefix=run_prefix, **{"hdf-many-patches": run_hdf_many})[case["part"]]
    viols, nontrivial = fn(case)
    res = dict(nontrivial=bool(nontrivial), key=case)
    if viols:
        uniq = {}
        for x in viols:
            uniq.setdefault(x["signature"], x)
        res.update(status="violation", violations=list(uniq.values()))
    return res
