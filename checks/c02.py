"""C02 - catalog creation stores every input record exactly once, unchanged.

Part 1 (engine E1): exhaustive lattice of input length x chunk size x source format x optional
columns x dtypes x degrees x patch mode x progress x writer buffer size, sequential pipeline.
Part 2 (engine E3b, model checking): the reader -> worker pool -> writer-process pipeline on the
virtual multiprocessing layer; every order in which the pool tasks of each chunk deliver their part,
interleaved with the writer, is explored and the stored per-patch multisets are compared.
"""

from __future__ import annotations

import itertools
import math
import os
import shutil

import numpy as np

from vlib import ref, runner, yawx

PROPERTY = "C02"
FANOUT_CHUNK = 8  # the parallel cases are heavy: small chunks keep the 16 workers balanced
LEVEL = "model_checking"
RULE = (
    "sequential lattice: n in 1..7(|10) x chunksize {1,2,3,n-1,n,n+1,None} x source {data frame, FITS, HDF5, "
    "Parquet with row groups {1,2,n}, random generator, FITS with the data in extension 2 behind a decoy table} x columns {-,w,z,w+z} x dtype {f8,f4|i8,i4} x degrees x "
    "patch mode {centres, id column (stored as i8 and, for n in {3,6}, as u1/u2/i2/u4/i4/u8 together with integer weights), centres + an id column of another partition (must be ignored) | patch_num} x progress x buffersize {-1,0,1,2,100}; parallel: W in {2,3} "
    "workers x n x chunksize, every delivery order of the pool tasks of every chunk (all interleavings of the "
    "virtual pool/queue/writer process under the partial-order reduction of DESIGN.md E3b; on eight small instances also every completion order of the patch-loading pool). Oracle: per patch "
    "the multiset of stored records equals the input records assigned by an independent nearest-centre rule / "
    "the id column; weights and redshifts bit-identical to float64(input), coordinates within 2 ulp of "
    "deg2rad(float64(input)); reopened catalog identical; identical across all chunk sizes, buffer sizes, W and "
    "schedules. Non-trivial: n not a multiple of the chunk size or n < chunksize, >= 2 patches hit."
)
ASSUMPTIONS = [
    "parallel mode is decided on the virtual multiprocessing layer (vlib/vmp.py): pickled copies across process "
    "boundaries, unbounded FIFO manager queue, Pool.map waits for all tasks; conformance runs on the real "
    "multiprocessing are part of C05/C09",
    "records carry their identity in weight and redshift (w_i = 1 + i/16, z_i = 0.5 + i/32), so a lost, doubled or "
    "swapped record is visible",
]

CENTRES = np.array([[10.0, 0.0], [30.0, 0.0], [50.0, 10.0]])  # degrees


def records(n):
    i = np.arange(n)
    ra = 10.0 + 20.0 * (i % 3) + 2.0 * (i // 3)
    dec = 10.0 * (i % 3 == 2) + 1.0 * (i // 3)
    w = 1.0 + i / 16.0
    z = 0.5 + i / 32.0
    pid = i % 3
    return ra, dec, w, z, pid


def chunk_sizes(n):
    return sorted({c for c in (1, 2, 3, n - 1, n, n + 1) if c >= 1}) + [None]


def cases(tier, seed):
    out = []
    nmax = 7 if tier == "quick" else 10
    dtypes = ("f8", "f4") if tier == "quick" else ("f8", "f4", "i8", "i4")
    for n in range(1, nmax + 1):
        for cs in chunk_sizes(n):
            for source in ("frame", "fits", "hdf", "pq1", "pq2", "pqn"):
                for cols, dtype, degrees, mode, progress in itertools.product(
                        ("", "w", "z", "wz"), dtypes, (True, False), ("centres", "ids"), (False, True)):
                    if dtype.startswith("i") and not degrees:
                        continue
                    if tier == "quick" and progress and (cols not in ("", "wz") or source not in ("frame", "pq2")):
                        continue
                    if tier == "quick" and source in ("fits", "hdf", "pq1", "pqn") and dtype == "f4" and cols in ("w", "z"):
                        continue
                    out.append(dict(part="seq", n=n, chunksize=cs, source=source, cols=cols, dtype=dtype,
                                    degrees=degrees, mode=mode, progress=progress))
            for cols, mode in itertools.product(("", "wz"), ("centres",)):
                out.append(dict(part="seq", n=n, chunksize=cs, source="random", cols=cols, dtype="f8",
                                degrees=True, mode=mode, progress=False))
            for buf in (0, 1, 2, 100):
                for mode in ("centres", "ids"):
                    out.append(dict(part="seq", n=n, chunksize=cs, source="frame", cols="wz", dtype="f8",
                                    degrees=True, mode=mode, progress=False, buffersize=buf))
    # integer storage types of the patch-id and weight columns (FITS stores unsigned integers as scaled signed
    # ones); both patch options at once (the id column must be ignored when centres are given)
    for n, cs, source in itertools.product((3, 6), (2, None), ("frame", "fits", "hdf", "pq2")):
        for idt in ("u1", "u2", "i2", "u4", "i4", "u8"):
            out.append(dict(part="seq", n=n, chunksize=cs, source=source, cols="wz", dtype="f8", degrees=True,
                            mode="ids", progress=False, int_dtype=idt))
        out.append(dict(part="seq", n=n, chunksize=cs, source=source, cols="wz", dtype="f8", degrees=True,
                        mode="centres+ids", progress=False))
    # FITS file with two tables of equal column names, the data in the second extension (hdu=2)
    for n, cs, mode in itertools.product((3, 6), (2, None), ("centres", "ids")):
        out.append(dict(part="seq", n=n, chunksize=cs, source="fits-hdu2", cols="wz", dtype="f8", degrees=True,
                        mode=mode, progress=False))
    if tier == "thorough":
        for n in (8, 9, 12):
            for cs in (3, n, None):
                out.append(dict(part="seq", n=n, chunksize=cs, source="frame", cols="wz", dtype="f8",
                                degrees=True, mode="create", progress=False))
    # parallel part
    Ws = (2, 3)
    for W in Ws:
        for n in range(1, (6 if tier == "quick" else 8) + 1):
            for cs in chunk_sizes(n):
                nchunks = 1 if cs is None else -(-n // cs)
                if math.factorial(W) ** nchunks > (250 if tier == "quick" else 4000):
                    continue  # bound on the number of delivery orders per case
                for mode in ("centres", "ids"):
                    out.append(dict(part="par", W=W, n=n, chunksize=cs, mode=mode, cols="wz"))
    # small instances in which the completion orders of the patch-loading pool are explored as well
    for n, cs in ((2, None), (3, None), (3, 2), (4, 2)) if tier == "quick" else ((2, None), (3, None), (3, 2), (4, 2), (5, 3), (4, 1)):
        for mode in ("centres", "ids"):
            out.append(dict(part="par", W=2, n=n, chunksize=cs, mode=mode, cols="wz", load_orders=True))
    out.sort(key=lambda c: (c["part"] == "seq", -c["n"]))  # heavy (parallel) cases first
    return out


def setup():
    yawx.sequential()
    import warnings

    warnings.simplefilter("ignore")
    from yaw.utils.logging import Indicator

    Indicator.__init__.__kwdefaults__["stream"] = open(os.devnull, "w")


def make_source(case, d):
    """-> (creator callable taking cache path and extra kwargs, expected dict) """
    import pandas as pd
    from yaw import AngularCoordinates, Catalog

    n = case["n"]
    ra, dec, w, z, pid = records(n)
    dt = np.dtype(case["dtype"])
    deg = case["degrees"]
    if not deg:
        ra, dec = np.deg2rad(ra), np.deg2rad(dec)
    cols = dict(ra=ra.astype(dt), dec=dec.astype(dt))
    names = dict(ra_name="ra", dec_name="dec")
    if "w" in case["cols"]:
        cols["w"] = w.astype(dt) if dt.kind == "f" else (w * 16).astype(dt)  # integers stay exact
        names["weight_name"] = "w"
    if "z" in case["cols"]:
        cols["z"] = z.astype(dt) if dt.kind == "f" else (z * 32).astype(dt)
        names["redshift_name"] = "z"
    kw = dict(names, degrees=deg, chunksize=case["chunksize"], progress=case.get("progress", False))
    mode = case["mode"]
    if "int_dtype" in case:  # weights as integers of that storage type, patch ids too
        cols["w"] = (w * 16).astype(case["int_dtype"])
    if mode == "ids":
        cols["pid"] = pid.astype(case.get("int_dtype", "i8"))
        kw["patch_name"] = "pid"
    elif mode == "centres+ids":
        # an id column that describes another partition than the centres; documented: ignored if centres are given
        cols["pid"] = ((pid + 1) % min(3, n)).astype("i8")
        kw["patch_name"] = "pid"
        kw["patch_centers"] = AngularCoordinates(np.deg2rad(CENTRES[: min(3, n)]))
    elif mode == "centres":
        kw["patch_centers"] = AngularCoordinates(np.deg2rad(CENTRES[: min(3, n)]))
    else:
        kw.update(patch_num=2, probe_size=20)
    src = case["source"]
    df = pd.DataFrame(cols)
    if n % 2:  # odd lengths: a frame that kept the row labels of a larger parent (df[mask]); labels != positions
        df.index = np.arange(n)[::-1] * 2 + 3
    if src == "frame":
        return (lambda path, **k: Catalog.from_dataframe(path, df, **dict(kw, **k))), cols
    if src == "fits-hdu2":
        from astropy.io import fits
        from astropy.table import Table

        p = os.path.join(d, "in2.fits")
        decoy = {k: (np.asarray(v)[::-1][: max(1, n - 1)] + (1 if k != "pid" else 0)) for k, v in cols.items()}
        fits.HDUList([fits.PrimaryHDU(), fits.table_to_hdu(Table(decoy)), fits.table_to_hdu(Table(cols))]).writeto(p)
        kw["hdu"] = 2
    elif src == "fits":
        from astropy.table import Table

        p = os.path.join(d, "in.fits")
        Table(cols).write(p)
    elif src == "hdf":
        import h5py

        p = os.path.join(d, "in.hdf5")
        with h5py.File(p, "w") as f:
            for k, v in cols.items():
                f.create_dataset(k, data=v)
    else:
        import pyarrow as pa
        from pyarrow import parquet

        p = os.path.join(d, "in.parquet")
        rg = dict(pq1=1, pq2=2, pqn=max(n, 1))[src]
        parquet.write_table(pa.table(cols), p, row_group_size=rg)
    return (lambda path, **k: Catalog.from_file(path, p, **dict(kw, **k))), cols


def expected_records(case, cols):
    """Expected (ra, dec, w, z) float64 rows in radian and the patch of each."""
    n = case["n"]
    f = lambda a: np.asarray(a).astype(np.float64)  # noqa: E731
    ra, dec = f(cols["ra"]), f(cols["dec"])
    if case["degrees"]:
        ra, dec = np.deg2rad(ra), np.deg2rad(dec)
    rows = dict(ra=ra, dec=dec)
    if "w" in cols:
        rows["weights"] = f(cols["w"])
    if "z" in cols:
        rows["redshifts"] = f(cols["z"])
    if case["mode"] == "ids":
        patch = np.asarray(cols["pid"]).astype(int)
    elif case["mode"] in ("centres", "centres+ids"):
        patch, margin = ref.ref_assign(np.column_stack([ra, dec]), np.deg2rad(CENTRES[: min(3, n)]))
        assert n == 0 or margin.min() > 1e-6
    else:
        patch = None
    return rows, patch


def ulps(a, b):
    a, b = np.asarray(a, dtype=np.float64), np.asarray(b, dtype=np.float64)
    sp = np.spacing(np.maximum(np.abs(a), np.abs(b)))
    return np.abs(a - b) / np.where(sp > 0, sp, 1.0)


def compare_catalog(cat, rows, patch, tag, v):
    """Per-patch multiset comparison; returns canonical form of what is stored."""
    fields = list(rows)
    stored = {}
    total = 0
    for pid, p in cat.items():
        data = p.load_data()
        if list(data.dtype.names) != fields:
            v.append(dict(signature=f"C02/{tag}/columns", what=f"stored columns {data.dtype.names} != {fields}"))
            return None
        arr = np.column_stack([data[f] for f in fields]) if len(data) else np.zeros((0, len(fields)))
        order = np.lexsort(arr.T[::-1])
        stored[int(pid)] = arr[order]
        total += len(arr)
        if p.meta.num_records != len(arr):
            v.append(dict(signature=f"C02/{tag}/meta-num-records", what=f"patch {pid}: metadata says "
                          f"{p.meta.num_records} records, {len(arr)} stored"))
    n = len(rows["ra"])
    if total != n:
        kind = "lost" if total < n else "duplicated"
        v.append(dict(signature=f"C02/{tag}/records-{kind}", what=f"{total} records stored, {n} given"))
        return stored
    if patch is None:  # generated centres: assignment must be nearest reported centre (checked in C12)
        allrows = np.concatenate(list(stored.values()))
        exp = np.column_stack([rows[f] for f in fields])
        a = allrows[np.lexsort(allrows.T[::-1])]
        b = exp[np.lexsort(exp.T[::-1])]
        if ulps(a, b).max() > 2:
            v.append(dict(signature=f"C02/{tag}/records-changed", what="stored records differ from the input"))
        return stored
    for pid in sorted(set(patch.tolist()) | set(stored)):
        exp = np.column_stack([rows[f][patch == pid] for f in fields])
        exp = exp[np.lexsort(exp.T[::-1])]
        got = stored.get(pid, np.zeros((0, len(fields))))
        if got.shape != exp.shape:
            v.append(dict(signature=f"C02/{tag}/wrong-patch", what=f"patch {pid} holds {len(got)} records, "
                          f"{len(exp)} belong there"))
            return stored
        if len(exp) == 0:
            continue
        if ulps(got[:, :2], exp[:, :2]).max() > 2:
            k = int(np.argmax(ulps(got[:, :2], exp[:, :2]).max(axis=1)))
            v.append(dict(signature=f"C02/{tag}/coordinates-inexact",
                          what=f"patch {pid}: stored coordinates {got[k, :2].tolist()} differ from "
                               f"deg2rad(float64(input)) {exp[k, :2].tolist()} by "
                               f"{ulps(got[:, :2], exp[:, :2]).max():.3g} ulp"))
            return stored
        if got.shape[1] > 2 and not np.array_equal(got[:, 2:], exp[:, 2:]):
            v.append(dict(signature=f"C02/{tag}/attributes-changed",
                          what=f"patch {pid}: stored weights/redshifts {got[:, 2:].tolist()} are not the "
                               f"input's {exp[:, 2:].tolist()} (records lost, doubled or mixed up)"))
            return stored
    return stored


def canon(stored):
    return None if stored is None else {k: a.tolist() for k, a in sorted(stored.items())}


def run_seq(case):
    from yaw import Catalog

    d = runner.fresh_dir("c02")
    v = []
    tag = f"seq/{case['source']}"
    if case["source"] == "random":
        return run_random(case, d)
    create, cols = make_source(case, d)
    rows, patch = expected_records(case, cols)
    path = os.path.join(d, "cat")
    try:
        if "buffersize" in case:
            from yaw import AngularCoordinates
            from yaw.catalog.catalog import load_patches, write_patches
            from yaw.catalog.readers import DataFrameReader
            import pandas as pd

            reader = DataFrameReader(pd.DataFrame(cols), ra_name="ra", dec_name="dec", weight_name="w",
                                     redshift_name="z", patch_name="pid" if case["mode"] == "ids" else None,
                                     chunksize=case["chunksize"], degrees=case["degrees"])
            cen = AngularCoordinates(np.deg2rad(CENTRES[: min(3, case["n"])])) if case["mode"] == "centres" else None
            write_patches(path, reader, cen, overwrite=False, progress=False, buffersize=case["buffersize"])
            cat = Catalog(path)
            tag = "seq/buffersize"
        else:
            cat = create(path)
    except Exception as e:
        return dict(nontrivial=True, key=case, status="violation", violations=[dict(
            signature=f"C02/{tag}/exception:{type(e).__name__}",
            what=f"creation raised {yawx.exc_name(e)} for valid input (n={case['n']}, chunksize="
                 f"{case['chunksize']}, dtype={case['dtype']}, cols={case['cols']!r})")])
    stored = compare_catalog(cat, rows, patch, tag, v)
    if not v:
        re = compare_catalog(Catalog(path), rows, patch, tag + "/reopened", v)
        if not v and canon(re) != canon(stored):
            v.append(dict(signature=f"C02/{tag}/reopened-differs", what="reopened catalog holds other records"))
    n, cs = case["n"], case["chunksize"]
    nontrivial = (cs is None or n % cs != 0 or n < cs) and (patch is None or len(set(patch.tolist())) >= 2)
    res = dict(nontrivial=bool(nontrivial), key=case, outcomes=[runner.digest(canon(stored))])
    if v:
        res.update(status="violation", violations=v[:3])
    return res


def run_random(case, d):
    from yaw import AngularCoordinates, Catalog
    from yaw.randoms import BoxRandoms

    n, cs = case["n"], case["chunksize"]
    _, _, w, z, _ = records(max(n, 3))
    kw = dict(weights=w, redshifts=z) if case["cols"] == "wz" else {}
    gen = BoxRandoms(5.0, 55.0, -5.0, 15.0, seed=7, **kw)
    path = os.path.join(d, "cat")
    v = []
    try:
        cat = Catalog.from_random(path, gen, n, patch_centers=AngularCoordinates(np.deg2rad(CENTRES)),
                                  chunksize=cs)
    except ValueError as e:
        if "contains no data" in str(e):  # a centre attracted no random point: legitimate refusal
            return dict(status="skip", skip_rule="random points leave a centre empty (creation refuses, C09)")
        raise
    # reference: a fresh generator drawn in the same chunk sizes
    gen2 = BoxRandoms(5.0, 55.0, -5.0, 15.0, seed=7, **kw)
    sizes, left = [], n
    step = cs or 16_777_216
    while left > 0:
        sizes.append(min(step, left))
        left -= sizes[-1]
    chunks = [gen2(s) for s in sizes]
    allc = np.concatenate(chunks)
    rows = {f: np.asarray(allc[f], dtype=float) for f in allc.dtype.names}
    patch, margin = ref.ref_assign(np.column_stack([rows["ra"], rows["dec"]]), np.deg2rad(CENTRES))
    stored = compare_catalog(cat, rows, patch, "seq/random", v)
    if not v:
        compare_catalog(Catalog(path), rows, patch, "seq/random/reopened", v)
    res = dict(nontrivial=bool(cs is None or n % cs != 0 or n < cs), key=case,
               outcomes=[runner.digest(canon(stored))])
    if v:
        res.update(status="violation", violations=v[:3])
    return res


def run_par(case):
    """All delivery orders of the reader -> pool -> writer-process pipeline (virtual multiprocessing)."""
    import pandas as pd
    from yaw import AngularCoordinates, Catalog
    from vlib import vmp

    W, n, cs, mode = case["W"], case["n"], case["chunksize"], case["mode"]
    ra, dec, w, z, pid = records(n)
    cols = dict(ra=ra, dec=dec, w=w, z=z)
    kw = dict(ra_name="ra", dec_name="dec", weight_name="w", redshift_name="z", chunksize=cs)
    if mode == "ids":
        cols["pid"] = pid
        kw["patch_name"] = "pid"
    else:
        kw["patch_centers"] = AngularCoordinates(np.deg2rad(CENTRES[: min(3, n)]))
    df = pd.DataFrame(cols)
    rows, patch = expected_records(dict(case, degrees=True), cols)
    vmp.install(workers=W)
    found = []

    def body():
        d = runner.fresh_dir("c02p")
        v = []
        cat = Catalog.from_dataframe(os.path.join(d, "cat"), df, **kw)
        stored = compare_catalog(cat, rows, patch, "par", v)
        if not v:
            compare_catalog(Catalog(os.path.join(d, "cat")), rows, patch, "par/reopened", v)
        shutil.rmtree(d, ignore_errors=True)
        found.extend(v)
        return runner.digest(canon(stored))

    def observe(ex):
        if ex["verdict"] != "ok":
            return f"DEADLOCK {ex['deadlock']}"
        if ex["exc"] is not None:
            return f"EXC {type(ex['exc']).__name__}: {str(ex['exc'])[:100]}"
        if any(code != 0 for code, _ in ex["exitcodes"]):
            return f"WRITER-DIED {ex['exitcodes']}"
        return ex["value"]

    try:
        # focus=-1: the order-mode pools (load_patches) keep submission order here, their orders are C05's
        focus = None if case.get("load_orders") else -1
        res = vmp.explore(body, observe=observe, max_exec=5000, focus=focus)
        cross = None
        if n == 2 and cs is None and W == 2 and mode == "ids" and not case.get("load_orders"):
            # cross-check of the partial-order reduction on the smallest instance: the unreduced search
            # must produce exactly the same set of outcomes
            full = vmp.explore(body, observe=observe, reduce=False, max_exec=20000, focus=focus)
            cross = dict(executions=full["executions"], capped=full["capped"],
                         same=set(full["outcomes"]) == set(res["outcomes"]))
    finally:
        vmp.uninstall()
        yawx.sequential()
    if res["capped"]:
        raise RuntimeError(f"execution cap hit for {case}")
    viols = []
    good = [d for d in res["outcomes"] if not d.startswith(("DEADLOCK", "EXC", "WRITER"))]
    for dig, o in res["outcomes"].items():
        if dig.startswith(("DEADLOCK", "EXC", "WRITER")):
            viols.append(dict(signature=f"C02/par/{dig.split()[0].lower()}",
                              what=f"parallel creation (W={W}, n={n}, chunksize={cs}) ends in {dig} under "
                                   f"schedule {o['trace']}", detail=dict(choices=o["trace"])))
    if len(good) > 1:
        viols.append(dict(signature="C02/par/schedule-dependent",
                          what=f"stored records depend on the delivery order (W={W}, n={n}, chunksize={cs}): "
                               f"{len(good)} different outcomes"))
    for v in found[:2]:
        viols.append(v)
    if cross is not None and not cross["capped"] and not cross["same"]:
        raise RuntimeError(f"partial-order reduction changes the outcome set for {case}")
    counters = dict(executions=res["executions"], states=res["states"], transitions=res["transitions"],
                    schedules_nondefault=res["nondefault"])
    if cross is not None:
        counters["unreduced_crosscheck_executions"] = cross["executions"]
        counters["unreduced_crosscheck_capped"] = int(cross["capped"])
    nchunks = 1 if cs is None else -(-n // cs)
    out = dict(nontrivial=bool(res["nondefault"] > 0 and n >= 2), key=case, counters=counters,
               outcomes=sorted(res["outcomes"]),
               sample=dict(case, executions=res["executions"], chunks=nchunks))
    if viols:
        uniq = {}
        for v in viols:
            uniq.setdefault(v["signature"], v)
        out.update(status="violation", violations=list(uniq.values()))
    return out


def run_case(case):
    if case["part"] == "seq":
        return run_seq(case)
    return run_par(case)


def finish(ctx):
    """Conformance of the virtual pipeline: the same scenarios run free on the real multiprocessing module."""
    import json
    import subprocess
    import sys

    script = os.path.join(os.path.dirname(os.path.dirname(os.path.abspath(__file__))), "vlib", "realmp_conf.py")
    p = subprocess.run([sys.executable, script, "c02", str(ctx["seed"])], capture_output=True, text=True)
    try:
        rep = json.loads(p.stdout.strip().splitlines()[-1])
    except Exception:
        ctx["errors"].append(dict(case="realmp conformance", trace=p.stdout[-2000:] + p.stderr[-2000:]))
        return dict(conformance_runs=0)
    if rep["mismatches"] and not ctx["found"]:
        ctx["errors"].append(dict(case="realmp conformance",
                                  trace="the real multiprocessing pipeline behaves differently from what the virtual "
                                        f"exploration found: {rep['mismatches']}"))
    return dict(conformance_runs=rep["runs"], conformance_mismatches=len(rep["mismatches"]))
