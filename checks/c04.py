"""C04 - correlation estimators and the n(z) formula are applied as documented.

Engine E1: every non-empty subset of {dr, rd, rr} x auto/cross x count contents x
binning x which autocorrelations (of either sign) are passed to the redshift estimate. The reference
is typed from the property text (vlib.ref.ref_norm_term / ref_estimator).
"""

from __future__ import annotations

import itertools

import numpy as np

from vlib import containers as C
from vlib import ref, yawx

PROPERTY = "C04"
LEVEL = "exploration"
RULE = (
    "member subsets of {dr,rd,rr} (7) x auto/cross x bins{1,2,3} x patches{2,3} x binning {equal, unequal "
    "widths} x closed x count contents {fingerprint, amplitude-positive, sparse, with zero RR bins} x "
    "autocorrelations {none, ref, unk, both}; oracle: (DD-DR-RD+RR)/RR with RD:=DR if absent, DD/DR-1 or "
    "DD/RD-1 without RR, each term = total count / product of total weights (half the squared total for "
    "auto); n(z) = w_sp/sqrt(dz^2 w_ss w_pp); normalised() integrates to 1; from_corrdata called twice on the same inputs (inputs unchanged, results equal); after cf.rr = None the same object samples the estimator without RR. Non-trivial: finite "
    "result whose candidate formulas (LS, DP/DR, DP/RD) give pairwise different values."
)
ASSUMPTIONS = [
    "Landy-Szalay without DR is not defined by the statement: any exception or value is accepted there",
    "for {dr, rd} without rr either DD/DR-1 or DD/RD-1 is accepted",
]

CONTENTS = ("fp", "pos", "sparse", "zero-rr")


def cases(tier, seed):
    out = []
    Ns = (2, 3)
    for B, N, auto, members, content in itertools.product(
            (1, 2, 3), Ns, (False, True), C.MEMBER_SUBSETS, CONTENTS):
        kinds = ("uneq", "eq") if tier == "thorough" else ("uneq",)
        for kind in kinds:
            for closed in (("right", "left") if tier == "thorough" else ("right",)):
                out.append(dict(part="estimator", B=B, N=N, auto=auto, members=list(members),
                                content=content, kind=kind, closed=closed))
    for B, kind, content, autos, signs in itertools.product(
            (1, 2, 3), ("uneq", "eq"), ("pos", "fp"), ("none", "ref", "unk", "both"), ("++", "--", "+-")):
        if autos == "none" and signs != "++":
            continue
        out.append(dict(part="nz", B=B, N=3, kind=kind, content=content, autos=autos, signs=signs))
    for B, kind in itertools.product((1, 2, 3), ("uneq", "eq")):
        for vals in itertools.product((0.0, 1.0, 2.5, float("nan")), repeat=B):
            if not any(v > 0 for v in vals):
                continue
            out.append(dict(part="norm", B=B, kind=kind, vals=list(vals)))
    out.sort(key=lambda c: (c["B"], c.get("N", 0)))
    return out


def setup():
    yawx.sequential()


def make_cf(B, N, auto, members, content, kind="uneq", closed="right", salt=0):
    from yaw import CorrFunc

    offs = dict(dd=(0, 7), dr=(0, 17), rd=(11, 7), rr=(11, 17))
    amp = dict(fp=dict(dd=1, dr=2, rd=3, rr=4), pos=dict(dd=9, dr=2, rd=3, rr=1),
               sparse=dict(dd=5, dr=2, rd=3, rr=1), negamp=dict(dd=0.01, dr=60, rd=60, rr=20))
    amp["zero-rr"] = amp["pos"]
    kw = {}
    for m in ("dd",) + tuple(members):
        o1, o2 = offs[m]
        nc_auto = auto if m in ("dd", "rr") else False
        cnt = C.fp_counts(B, N, nc_auto) * (amp[content][m] + salt)
        if content == "sparse":
            cnt[:, 0, :] = 0.0
            cnt[:, :, N - 1] *= (cnt[:, :, N - 1] > 4)
        if content == "zero-rr" and m == "rr":
            cnt[0] = 0.0
        sw1 = C.fp_sumw(B, N, o1)
        sw2 = sw1.copy() if nc_auto else C.fp_sumw(B, N, o2)
        kw[m] = C.make_norm(B, N, nc_auto, kind=kind, closed=closed, counts=cnt, sw1=sw1, sw2=sw2)
    return CorrFunc(**kw)


def terms_of(cf):
    sn = C.snap(cf)
    vals, samps = {}, {}
    for m in ("dd", "dr", "rd", "rr"):
        if sn[m] is None:
            continue
        vals[m], samps[m] = ref.ref_norm_term(
            sn[m]["counts"]["counts"], sn[m]["sum_weights"]["sw1"], sn[m]["sum_weights"]["sw2"],
            sn[m]["counts"]["auto"])
    return vals, samps


def viol(sig, what):
    return dict(signature=sig, what=what, detail=None)


def run_estimator(case):
    members = case["members"]
    cf = make_cf(case["B"], case["N"], case["auto"], members, case["content"], case["kind"], case["closed"])
    vals, samps = terms_of(cf)
    exp_d, exp_s = ref.ref_estimator(vals), ref.ref_estimator(samps)
    tag = "+".join(members) + ("/auto" if case["auto"] else "/cross")
    if exp_d is None:  # undefined: anything goes, but it must not hang or corrupt
        try:
            cf.sample()
        except Exception:
            pass
        return [], False
    try:
        got = cf.sample()
    except Exception as e:
        return [viol(f"C04/sample/exception:{type(e).__name__}/{tag}",
                     f"CorrFunc.sample raised {yawx.exc_name(e)} for members {members}")], True
    v = []
    # inspect-then-sample: looking at the arrays must not change what sample() returns
    try:
        for m in ("dd",) + tuple(members):
            getattr(cf, m).get_array()
        again = cf.sample()
        if not (np.array_equal(again.data, got.data, equal_nan=True)
                and np.array_equal(again.samples, got.samples, equal_nan=True)):
            v.append(viol(f"C04/sample/changes-after-inspection/{tag}",
                          "sample() returns another estimate after get_array() was called on the pair counts"))
    except Exception as e:
        v.append(viol(f"C04/get_array/exception:{type(e).__name__}", yawx.exc_name(e)))
    which = [i for i, d in enumerate(exp_d) if ref.close(got.data, d)]
    if not which:
        v.append(viol(f"C04/sample/data/{tag}",
                      f"sample().data {got.data.tolist()} is none of the documented estimators "
                      f"{[d.tolist() for d in exp_d]} (content {case['content']})"))
    elif not any(ref.close(got.samples, exp_s[i]) for i in which):
        v.append(viol(f"C04/sample/samples-other-formula/{tag}",
                      "jackknife samples are not computed with the formula used for the value"))
    # an optional member is dropped from the same object after sampling: the next sample() follows the remaining members
    if "rr" in members and "dr" in members:
        try:
            cf.rr = None
            vals2 = {k: x for k, x in vals.items() if k != "rr"}
            samps2 = {k: x for k, x in samps.items() if k != "rr"}
            d2, s2 = ref.ref_estimator(vals2), ref.ref_estimator(samps2)
            got2 = cf.sample()
            if d2 is not None and not any(ref.close(got2.data, d) and ref.close(got2.samples, s_) for d, s_ in zip(d2, s2)):
                v.append(viol(f"C04/sample/stale-after-member-removed/{tag}",
                              "after cf.rr = None the same object still samples the estimate that used the random-random counts"))
        except Exception:
            pass  # members may be read-only: nothing to check then
    # non-trivial: alternative formulas distinguishable on this input
    alts = []
    with np.errstate(all="ignore"):
        dd = vals["dd"]
        for k in ("dr", "rd"):
            if k in vals:
                alts.append(dd / vals[k] - 1)
                alts.append(dd / vals[k])
        if "rr" in vals and "dr" in vals:
            rd = vals.get("rd", vals["dr"])
            alts.append((dd - vals["dr"] - rd + vals["rr"]) / vals["rr"])
            alts.append((dd - vals["dr"] + rd + vals["rr"]) / vals["rr"])
            alts.append((dd - 2 * vals["dr"] + vals["rr"]) / vals["rr"])
    fin = [a for a in alts if np.isfinite(a).all()]
    distinct = len({tuple(np.round(a, 10)) for a in fin}) == len(fin) and len(fin) >= 2
    return v, bool(np.isfinite(exp_d[0]).all() and distinct)


def run_nz(case):
    import yaw

    B, N, kind, autos = case["B"], case["N"], case["kind"], case["autos"]
    cross = make_cf(B, N, False, ["dr", "rr"], case["content"], kind)
    signs = case.get("signs", "++")
    cont = {"+": "pos", "-": "negamp"}
    ref_cf = make_cf(B, N, True, ["dr", "rr"], cont[signs[0]], kind, salt=1) if autos in ("ref", "both") else None
    unk_cf = make_cf(B, N, True, ["dr"], cont[signs[1]], kind, salt=2) if autos in ("unk", "both") else None
    v = []
    try:
        rd = yaw.RedshiftData.from_corrfuncs(cross, ref_cf, unk_cf)
    except Exception as e:
        return [viol(f"C04/from_corrfuncs/exception:{type(e).__name__}/{autos}",
                     f"from_corrfuncs raised {yawx.exc_name(e)}")], True

    def est(cf):
        if cf is None:
            return 1.0, 1.0
        a, b = terms_of(cf)
        return ref.ref_estimator(a)[0], ref.ref_estimator(b)[0]

    dz = np.diff(np.array(C.edges_for(B, kind)))
    (sp_d, sp_s), (ss_d, ss_s), (pp_d, pp_s) = est(cross), est(ref_cf), est(unk_cf)
    with np.errstate(all="ignore"):
        ed = sp_d / np.sqrt(dz**2 * ss_d * pp_d)
        es = sp_s / np.sqrt(dz[None, :] ** 2 * ss_s * pp_s)
    if not ref.close(rd.data, ed, rtol=1e-11):
        v.append(viol(f"C04/nz/data/{autos}/{signs}", f"n(z) = {rd.data.tolist()} but w_sp/sqrt(dz^2 w_ss w_pp) = {ed.tolist()}"))
    if not ref.close(rd.samples, es, rtol=1e-11):
        v.append(viol(f"C04/nz/samples/{autos}/{signs}", "n(z) samples are not computed like the value"))
    # the same estimate from already sampled inputs (from_corrdata), twice with the same input objects (several
    # tomographic bins share one reference autocorrelation): same result both times, inputs untouched
    try:
        cd = cross.sample()
        rcd = ref_cf.sample() if ref_cf is not None else None
        ucd = unk_cf.sample() if unk_cf is not None else None
        snaps = [None if x is None else (x.data.copy(), x.samples.copy()) for x in (cd, rcd, ucd)]
        first = yaw.RedshiftData.from_corrdata(cd, rcd, ucd)
        second = yaw.RedshiftData.from_corrdata(cd, rcd, ucd)
        if not (ref.close(first.data, ed, rtol=1e-11) and ref.close(first.samples, es, rtol=1e-11)):
            v.append(viol(f"C04/nz/from_corrdata/{autos}", "from_corrdata differs from the formula"))
        elif not (ref.close(second.data, ed, rtol=1e-11) and ref.close(second.samples, es, rtol=1e-11)):
            v.append(viol(f"C04/nz/from_corrdata-second-call/{autos}",
                          "a second from_corrdata call with the same input objects gives another estimate"))
        for x, snp, name in zip((cd, rcd, ucd), snaps, ("cross", "ref", "unk")):
            if x is not None and not (np.array_equal(x.data, snp[0], equal_nan=True) and np.array_equal(x.samples, snp[1], equal_nan=True)):
                v.append(viol(f"C04/nz/from_corrdata-mutates-input/{name}", f"from_corrdata changed its {name} input in place"))
    except Exception as e:
        v.append(viol(f"C04/nz/from_corrdata/exception:{type(e).__name__}", yawx.exc_name(e)))
    # normalisation of the estimate
    if np.isfinite(rd.data).any():
        try:
            nd = rd.normalised()
            integ = float(np.nansum(dz * nd.data))
            if np.nansum(dz * rd.data) != 0 and not abs(integ - 1.0) < 1e-10:
                v.append(viol("C04/nz/normalised", f"integral after normalised() is {integ}, not 1"))
            if not ref.close(nd.samples * np.nansum(dz * rd.data), rd.samples, rtol=1e-10):
                v.append(viol("C04/nz/normalised-samples", "samples not scaled like the value"))
        except Exception as e:
            v.append(viol(f"C04/nz/normalised/exception:{type(e).__name__}", yawx.exc_name(e)))
    nontrivial = bool(np.isfinite(ed).all() and (B == 1 or len(set(np.round(dz, 12))) > 1 or kind == "eq"))
    return v, nontrivial


def run_norm(case):
    import yaw

    B, kind, vals = case["B"], case["kind"], np.array(case["vals"], dtype=float)
    binning = C.make_binning(B, kind)
    dz = np.diff(np.array(C.edges_for(B, kind)))
    samples = np.array([vals * f for f in (0.5, 1.0, 2.0)])
    v = []
    for cls in (yaw.HistData, yaw.RedshiftData):
        x = cls(binning, vals.copy(), samples.copy())
        try:
            nx = x.normalised()
        except Exception as e:
            v.append(viol(f"C04/{cls.__name__}.normalised/exception:{type(e).__name__}", yawx.exc_name(e)))
            continue
        if cls is yaw.HistData:
            # histogram counts -> density: integral over the binning is 1
            integ = float(np.nansum(dz * nx.data))
            want_shape = vals / dz
            want = want_shape / np.nansum(vals)
        else:
            integ = float(np.nansum(dz * nx.data))
            want = vals / np.nansum(dz * vals)
        if abs(integ - 1.0) > 1e-12:
            v.append(viol(f"C04/{cls.__name__}.normalised/integral",
                          f"integral over the binning is {integ} for data {vals.tolist()} dz {dz.tolist()}"))
        elif not ref.close(nx.data, want, rtol=1e-12):
            v.append(viol(f"C04/{cls.__name__}.normalised/shape",
                          f"normalised data {nx.data.tolist()} != {want.tolist()}"))
        if not ref.close(x.data, vals):
            v.append(viol(f"C04/{cls.__name__}.normalised/mutates", "normalised() changed the original"))
    return v, bool(B >= 2 and len(set(np.round(dz, 12))) > 1)


def run_case(case):
    fn = dict(estimator=run_estimator, nz=run_nz, norm=run_norm)[case["part"]]
    viols, nontrivial = fn(case)
    res = dict(nontrivial=bool(nontrivial), key=case)
    if viols:
        uniq = {}
        for x in viols:
            uniq.setdefault(x["signature"], x)
        res.update(status="violation", violations=list(uniq.values()))
    return res
