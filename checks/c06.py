"""C06 - MPI runs terminate and the root rank gets the single-process result.

Engine E4 (model checking): the library's real MPI branches run on a simulated MPI world (vlib/fakempi:
ranks are baton-passing threads; wildcard receives are matched under the POE discipline and the explorer
branches over every sender that can match).  Every matching of every program x world size x worker
limit x send mode x collective mode is executed; verdicts: deadlock, a rank raising, messages never
received, tasks executed != once, root observation != single-process observation.
"""

from __future__ import annotations

import itertools
import json
import os
import shutil
import subprocess
import sys

import numpy as np

from vlib import runner

PROPERTY = "C06"
LEVEL = "model_checking"
FANOUT_CHUNK = 1
RULE = (
    "programs {create from data frame with centres / with id column / with generated centres, from HDF5, from Parquet, from random generator; load a cache "
    "(metadata recomputed); build_trees binned+unbinned; HistData.from_catalog; autocorrelate; crosscorrelate; result I/O "
    "(CorrFunc HDF5, CorrData text, Configuration YAML write+read); creation with id column, build_trees, histogram and crosscorrelate also with progress=True; four programs on multi-node layouts {AB, AAB, ABA, ABB, ABAB, AABB} (processor names differ)} x world size {2,3|4} x max_workers {None,1,2,size} x "
    "send completion {eager, rendezvous | size-threshold} x collectives {full, minimal synchronisation}; every "
    "wildcard-receive matching the standard permits is enumerated (POE: deterministic matches first, then branch over "
    "all matchable senders); creation on 4 ranks: complete up to 3 deviations from the default matching. Five programs on 3 ranks also with YAW_NUM_THREADS=1 / 2 in the environment. Three refusal programs (oversized probe of a random generator; a given centre that attracts no object; an existing target directory without overwrite): what the single process refuses must be refused on every rank (no rank returns, none is left waiting). Oracle: no deadlock, no rank raises, no message left unreceived, every pair-count / "
    "histogram task executed exactly once, root observation == observation of the same program in an MPI-less "
    "single process. Non-trivial: an execution in which some wildcard receive had >= 2 candidate senders."
)
ASSUMPTIONS = [
    "decided against vlib/fakempi (my reading of MPI-3.1: non-overtaking per sender/receiver/tag/communicator, "
    "standard-mode send may or may not buffer, collectives may or may not synchronise); no MPI library is installed "
    "to validate it against; litmus self-tests are part of the check",
    "floats that legitimately depend on the order in which records reach the writer (patch centre = mean of the "
    "records, sum of weights) are compared to 1e-12, everything else bit-wise",
    "ranks share one file system and one Python process (module globals are shared; the library keeps no per-rank globals)",
    "catalog creation with max_workers=1 raises a documented ValueError on every rank: counted as refusal, not as a failure",
]

from vlib.mpi_bodies import PROGRAMS  # noqa: E402
_HERE = os.path.dirname(os.path.dirname(os.path.abspath(__file__)))


def cases(tier, seed):
    root = os.path.join(runner.scratch_root(), "keep_c06")
    shutil.rmtree(root, ignore_errors=True)
    os.makedirs(root)
    env = dict(os.environ)
    env.pop("FAKE_MPI_SIZE", None)
    p = subprocess.run([sys.executable, os.path.join(_HERE, "vlib", "mpi_bodies.py"), "baseline", root],
                       capture_output=True, text=True, env=env)
    if p.returncode != 0:
        raise RuntimeError("baseline failed: " + p.stderr[-3000:])
    base = json.loads(p.stdout.strip().splitlines()[-1])
    sizes = (2, 3) if tier == "quick" else (2, 3, 4)
    out = [dict(program="litmus")]
    for prog, size in itertools.product(PROGRAMS, sizes):
        mws = sorted({1, 2, size}) + [None]
        for mw, sm, cm in itertools.product(mws, ("eager", "rendezvous", "threshold"), ("full", "minimal")):
            if tier == "quick" and (sm == "threshold" or (cm == "minimal" and sm == "rendezvous")):
                continue
            if prog.startswith("refuse-") and (mw not in (None, 2) or sm == "threshold" or cm == "minimal"):
                continue
            if prog.endswith("+p") and (mw not in (None, 2) or sm == "threshold" or cm == "minimal"):
                continue  # progress variants: a reduced set of modes
            if size == 4 and (sm == "threshold" or cm == "minimal"):
                continue  # the largest world: eager and rendezvous sends with fully synchronising collectives
            case = dict(program=prog, size=size, max_workers=mw, send_mode=sm, coll_mode=cm,
                        baseline=base[prog], fixture=os.path.join(root, "fixture"))
            if size == 4 and prog.startswith(("create", "refuse-")):
                # three senders x three chunks racing for the writer: the matchings grow factorially; explored
                # completely up to 3 deviations from the default matching (iterative context bounding)
                case["bound"] = 3
            out.append(case)
            # the thread-count variable of the multiprocessing back end set in the environment of an MPI run (a cluster
            # job script may export it): it must not change which ranks take part
            if size == 3 and mw is None and sm == "eager" and cm == "full" and prog in ("create-centres", "trees", "hist", "cross", "load"):
                for threads in ("1", "2"):
                    out.append(dict(case, threads_env=threads))
    # ranks spread over several nodes (different processor names): only the ranks on the root's node take part
    for prog, nodes in itertools.product(("create-centres", "create-ids", "hist", "cross"), ("AB", "AAB", "ABA", "ABB", "ABAB", "AABB")):
        if tier == "quick" and len(nodes) == 4 and prog != "create-ids":
            continue
        for sm in ("eager", "rendezvous"):
            case = dict(program=prog, size=len(nodes), max_workers=None, send_mode=sm, coll_mode="full", nodes=nodes,
                        baseline=base[prog], fixture=os.path.join(root, "fixture"))
            if len(nodes) == 4 and prog.startswith("create"):
                case["bound"] = 3
            out.append(case)
    return out


def setup():
    # the fake mpi4py must be importable and report a world size > 1 *before* yaw is imported
    os.environ["FAKE_MPI_SIZE"] = "2"
    sys.path.insert(0, os.path.join(_HERE, "vlib", "fakempi"))
    os.environ["YAW_NUM_THREADS"] = "64"
    import logging
    import warnings

    warnings.simplefilter("ignore")
    np.seterr(all="ignore")
    import yaw  # noqa: F401
    from yaw.utils import parallel

    assert parallel.use_mpi(), "the simulated mpi4py was not picked up"
    logging.getLogger("yaw").setLevel(logging.CRITICAL)


def litmus():
    from mpi4py import MPI

    C = MPI.COMM_WORLD

    def explore(main, size, **kw):
        stack, outs = [[]], set()
        while stack:
            pre = stack.pop()
            r = MPI.run_world(size, main, prefix=pre, **kw)
            outs.add(repr((r["results"], r["deadlock"] is not None)))
            tr = r["trace"]
            for i in range(len(pre), len(tr)):
                for alt in range(1, tr[i][0]):
                    stack.append([c for _, c, _ in tr[:i]] + [alt])
        return outs

    def hh(r):
        C.send("x", dest=1 - r, tag=0)
        return C.recv(source=1 - r, tag=0)

    def ws(r):
        if r == 0:
            return [C.recv(source=MPI.ANY_SOURCE, tag=1), C.recv(source=MPI.ANY_SOURCE, tag=1)]
        C.send(r, dest=0, tag=1)

    def no(r):
        if r == 1:
            for i in range(3):
                C.send(i, dest=0, tag=1)
        if r == 0:
            return [C.recv(source=MPI.ANY_SOURCE, tag=1) for _ in range(3)]

    problems = []
    if explore(hh, 2, send_mode="eager") != {"(['x', 'x'], False)"}:
        problems.append("head-to-head eager")
    if explore(hh, 2, send_mode="rendezvous") != {"([None, None], True)"}:
        problems.append("head-to-head rendezvous must deadlock")
    if len(explore(ws, 3)) != 2 or len(explore(ws, 3, send_mode="rendezvous")) != 2:
        problems.append("two senders / wildcard receive must give both orders")
    def cc(r):
        return [C.allgather(r * 10), C.scatter([5, 6, 7] if r == 1 else None, root=1), C.reduce(r + 1, op=MPI.SUM, root=2),
                C.allreduce(r + 1, op=MPI.MAX)]

    if explore(cc, 3) != {"([[[0, 10, 20], 5, None, 3], [[0, 10, 20], 6, None, 3], [[0, 10, 20], 7, 6, 3]], False)"}:
        problems.append(f"composed collectives: {explore(cc, 3)}")
    if explore(no, 2) != {"([[0, 1, 2], None], False)"}:
        problems.append("non-overtaking")
    if problems:
        raise RuntimeError(f"fakempi litmus tests failed: {problems}")


def run_case(case):
    if case["program"] == "litmus":
        litmus()
        return dict(nontrivial=True, key=case, counters=dict(executions=6, states=6, transitions=6))
    from mpi4py import MPI
    from vlib import mpi_bodies
    from yaw.correlation import measurements
    from yaw import redshifts

    if not os.path.isdir(case["fixture"]):  # replay in another process: rebuild the fixture
        root = runner.fresh_dir("keepc06fix")
        shutil.rmtree(root)
        env = dict(os.environ)
        env.pop("FAKE_MPI_SIZE", None)
        env.pop("YAW_NUM_THREADS", None)
        p = subprocess.run([sys.executable, os.path.join(_HERE, "vlib", "mpi_bodies.py"), "baseline", root],
                           capture_output=True, text=True, env=env)
        if p.returncode != 0:
            raise RuntimeError("baseline failed: " + p.stderr[-2000:])
        # the single-process observation is recomputed as well (a replay file may stem from an older observation format)
        fresh_base = json.loads(p.stdout.strip().splitlines()[-1])
        case = dict(case, fixture=os.path.join(root, "fixture"), baseline=fresh_base[case["program"]])
    prog, size, mw = case["program"], case["size"], case["max_workers"]
    sm, cm = case["send_mode"], case["coll_mode"]
    os.environ["YAW_NUM_THREADS"] = case.get("threads_env", "64")
    calls = {}
    orig_ppp, orig_hist = measurements.process_patch_pair, redshifts._redshift_histogram

    def counted_ppp(pair, config):
        k = ("pair", id(config) and 0, pair.id1, pair.id2, str(pair.patch1.cache_path), str(pair.patch2.cache_path))
        calls[k] = calls.get(k, 0) + 1
        return orig_ppp(pair, config)

    def counted_hist(patch_id, patch, binning):
        k = ("hist", patch_id)
        calls[k] = calls.get(k, 0) + 1
        return orig_hist(patch_id, patch, binning)

    measurements.process_patch_pair = counted_ppp
    redshifts._redshift_histogram = counted_hist
    counters = dict(executions=0, states=0, transitions=0, branching_executions=0, refused=0)
    outcomes = {}
    viols = []
    stack = [[]]
    try:
        while stack:
            prefix = stack.pop()
            d = runner.fresh_dir("c06")
            shutil.copytree(case["fixture"], os.path.join(d, "fixture"))
            os.makedirs(os.path.join(d, "out"))
            calls.clear()
            res = MPI.run_world(size, lambda r: mpi_bodies.program(prog, d, mw), send_mode=sm, coll_mode=cm, prefix=prefix,
                                nodes=case.get("nodes"))
            shutil.rmtree(d, ignore_errors=True)
            counters["executions"] += 1
            counters["transitions"] += res["nops"]
            tr = res["trace"]
            counters["branching_executions"] += int(len(tr) > 0)
            for i in range(len(prefix), len(tr)):
                if case.get("bound") is not None and sum(1 for _, c, _ in tr[:i] if c != 0) + 1 > case["bound"]:
                    counters["deviation_bounded_cuts"] = counters.get("deviation_bounded_cuts", 0) + 1
                    continue
                for alt in range(1, tr[i][0]):
                    stack.append([c for _, c, _ in tr[:i]] + [alt])
            if counters["executions"] > 20000:
                raise RuntimeError(f"execution cap hit for {case}")
            # verdict of this execution
            errs = [e for e in res["errors"] if e is not None]
            if prog.startswith("refuse-"):
                outs_ = [r for r in res["results"] if r is not None]
                surfaced = any(str(r).startswith("raised:") for r in outs_)
                if res["results"][0] == "returned" or (outs_ and all(r == "returned" for r in outs_)):
                    verdict = ("faulty-request-accepted", f"a request that the single process refuses ({case['baseline']}) "
                               f"returns normally under MPI: {res['results']}")
                elif res["deadlock"] is None and outs_ and all(str(r).startswith("raised:") for r in outs_) and len(outs_) == size:
                    verdict = ("ok", "")
                    counters["refused"] += 1
                else:
                    who = [i for i, r in enumerate(res["results"]) if str(r).startswith("raised:")]
                    verdict = ("error-not-on-all-ranks", f"the error is raised on rank(s) {who} only, the other ranks block forever: "
                               f"{res['deadlock']}")
            elif res["deadlock"] is not None:
                verdict = ("deadlock", f"ranks blocked forever: {res['deadlock']}")
            elif errs:
                names = sorted({type(e[0]).__name__ + ": " + str(e[0])[:80] for e in errs})
                if (prog.startswith("create") and mw == 1 and len(errs) == size
                        and all("at least two workers" in str(e[0]) for e in errs)):
                    counters["refused"] += 1
                    continue
                nodes = case.get("nodes")
                if (prog.startswith("create") and nodes and nodes.count(nodes[0]) < 2 and len(errs) == size):
                    # a single rank on the root's node: creation (which needs two ranks there) is refused on all
                    # ranks - whatever the exception, nothing hangs and nothing wrong is returned
                    counters["refused"] += 1
                    continue
                verdict = ("rank-raises:" + type(errs[0][0]).__name__, f"{len(errs)} rank(s) raised {names}")
            elif res["leftover"]:
                verdict = ("messages-never-received", f"{res['leftover']} sent message(s) were never received")
            elif any(v != 1 for v in calls.values()):
                bad = {str(k): v for k, v in calls.items() if v != 1}
                verdict = ("task-not-once", f"tasks executed other than once: {bad}")
            elif not mpi_bodies.same_obs(res["results"][0], case["baseline"]):
                nocalls = prog in ("auto", "cross", "hist") and not calls
                verdict = ("root-result-differs" + ("/no-task-executed" if nocalls else ""),
                           "the root rank's result differs from the single-process result"
                           + (" (no task was executed at all)" if nocalls else ""))
            else:
                verdict = ("ok", "")
            outcomes[verdict[0]] = outcomes.get(verdict[0], 0) + 1
            if verdict[0] != "ok" and not any(v["signature"].endswith(verdict[0] + f"/max_workers={mw}") or
                                              v["signature"].endswith(verdict[0]) for v in viols):
                mwtag = f"/max_workers={mw}" if mw == 1 else ""
                viols.append(dict(
                    signature=f"C06/{prog}/{sm if verdict[0] in ('messages-never-received', 'deadlock') else 'any-send-mode'}/{verdict[0]}{mwtag}",
                    what=f"{prog} on {size} ranks (max_workers={mw}, {sm} sends, {cm} collectives), matching {prefix}: {verdict[1]}",
                    detail=dict(choices=[c for _, c, _ in tr], case={k: v for k, v in case.items() if k not in ('fixture',)})))
    finally:
        measurements.process_patch_pair = orig_ppp
        redshifts._redshift_histogram = orig_hist
    counters["states"] = counters["executions"]
    res = dict(nontrivial=counters["branching_executions"] > 0, key={k: v for k, v in case.items() if k != "fixture"},
               counters=counters, outcomes=sorted(outcomes),
               sample=dict(program=prog, size=size, max_workers=mw, send_mode=sm, coll_mode=cm,
                           executions=counters["executions"], outcomes=outcomes))
    if viols:
        res.update(status="violation", violations=viols[:4])
    return res
