"""C16 - random catalogs: exact size, footprint, joint attributes, reproducible by seed, uniform.

Engine E1 (+ an RNG seam for the uniformity clause): windows x sizes around chunk multiples x
chunk sizes x seeds x attribute arrays, every prior-use history of length <= 3 of a generator /
reader, and the equal-area map evaluated on an exact regular grid of uniform variates.
"""

from __future__ import annotations

import itertools
import os

import numpy as np

from vlib import runner, vmp, yawx

PROPERTY = "C16"
LEVEL = "exploration"
RULE = (
    "catalog: windows {generic box, full sphere, north cap, south cap, thin strip, RA up to 360} x num_randoms "
    "{1..9} u {k*c, k*c+-1} x chunksize {1,2,3,None} x seed {0,1,12345} x attributes {none, weights, redshifts, both; "
    "value i encodes source row i} x workers {1, 2 (virtual pool, all delivery orders)}; history: every sequence of "
    "length <= 3 over {direct call, probe, full pass, abandoned partial pass} before the observed pass, and repeated "
    "Catalog.from_random with one generator; the same histories with a probe as the observed operation; explicit reseeding over {0,1,12345}^2 observed directly, through a reader created before, and through its probe; attribute columns given as pandas Series with a permuted index (both, or one next to a plain array); attribute tables with NaN / inf in different rows of weights and redshifts (pairs stay rows of the input); attribute tables of 1,2,3,7 rows: every row reachable (index range at the rng seam and 300*m real draws); probe: get_probe(s) for s in 1..n x chunksize {1,2,3,None} returns exactly s points, reproducibly; patchnum: from_random(n in {20,33}, patch_num=2, probe_size below / equal to / above n) holds exactly n points or refuses the oversized probe; dataframe: generate_dataframe(n, degrees {True, False, default}) on 3 windows x attributes {none, wz} equals the direct draw of a generator with the same seed in that unit and advances the stream alike; uniformity: the generator's rng replaced by a stub returning an exact "
    "regular grid, the points must satisfy ra = lo+u(hi-lo), sin(dec) = sin(lo)+v(sin(hi)-sin(lo)). Oracle: exact "
    "count, every point inside the window, weight and redshift name the same source row, records identical to a "
    "fresh generator with that seed. Non-trivial: size not a multiple of the chunk size, or a non-empty history."
)
ASSUMPTIONS = [
    "uniform in area is decided as a property of the deterministic map applied to the generator's uniform variates "
    "(equal-area cylinder projection); the statistical quality of numpy's PCG64 stream is trusted",
    "HealPixRandoms needs healpy, which is not installed: not covered",
]

WINDOWS = {
    "box": (10.0, 50.0, -20.0, 30.0), "sphere": (0.0, 360.0, -90.0, 90.0), "ncap": (0.0, 360.0, 80.0, 90.0),
    "scap": (0.0, 360.0, -90.0, -85.0), "strip": (100.0, 100.001, -1.0, 1.0), "wrap": (350.0, 360.0, -5.0, 5.0),
}
M = 5  # length of the attribute arrays
OPS = ("call", "probe", "pass", "partial")


def sizes_for(c):
    base = set(range(1, 10))
    if c:
        for k in (1, 2, 3):
            base |= {k * c - 1, k * c, k * c + 1}
    return sorted(x for x in base if x >= 1)


def cases(tier, seed):
    out = []
    seeds = (0, 1, 12345)
    for win, c, attrs in itertools.product(WINDOWS, (1, 2, 3, None), ("", "w", "z", "wz")):
        for n in sizes_for(c):
            for sd in seeds:
                if tier == "quick" and sd != 12345 and (win not in ("box", "ncap") or attrs not in ("", "wz")):
                    continue
                out.append(dict(part="catalog", window=win, n=n, chunksize=c, attrs=attrs, seed=sd, W=1))
    for win, c, n in itertools.product(("box", "sphere"), (2, 3), (5, 6, 7)):
        out.append(dict(part="catalog", window=win, n=n, chunksize=c, attrs="wz", seed=12345, W=2))
    for hist_len in range(0, 4):
        for hist in itertools.product(OPS, repeat=hist_len):
            for n, c in ((5, 2), (4, 2), (3, None)):
                if tier == "quick" and hist_len == 3 and (n, c) != (5, 2):
                    continue
                out.append(dict(part="history", hist=list(hist), n=n, chunksize=c, seed=12345, attrs="wz"))
                if hist_len >= 1 and (n, c) == (5, 2):
                    out.append(dict(part="history", hist=list(hist), n=n, chunksize=c, seed=12345, attrs="wz",
                                    observe="probe"))
    for win, n in itertools.product(WINDOWS, (1, 2, 7, 64)):
        out.append(dict(part="uniform", window=win, n=n))
    # explicit reseeding: a generator reseeded to s behaves like a fresh generator with seed s - directly, through a
    # reader created before the reseeding, and through its probe
    for s_from, s_to in itertools.product((0, 1, 12345), repeat=2):
        for via in ("direct", "reader-pass", "reader-probe"):
            out.append(dict(part="reseed", s_from=s_from, s_to=s_to, via=via))
    # attribute rows: with m source rows every row must be reachable (m = 1 included)
    for m in (1, 2, 3, 7):
        out.append(dict(part="rows", m=m))
    for bad in ("nan", "inf"):
        out.append(dict(part="rows", m=7, nonfinite=bad))
    # attribute samples handed over as columns of a data frame whose integer index is a permutation (sorted / shuffled)
    for which in ("both", "weights", "redshifts"):
        out.append(dict(part="rows", m=7, series=which))
    # the probe used for generating patch centres: exactly the requested number of points, whatever the chunk size
    for c, n in itertools.product((1, 2, 3, None), (5, 7)):
        for size in range(1, n + 1):
            out.append(dict(part="probe", chunksize=c, n=n, size=size, seed=12345, attrs="wz"))
    for reps, c in itertools.product((2, 3), (2, None)):
        out.append(dict(part="refrom", reps=reps, chunksize=c, n=5, seed=7))
    # generated centres: the probe drawn for them may be smaller than, equal to or larger than the catalog (the latter
    # may be refused): the catalog still holds exactly n points of a fresh generator's stream
    for n, probe, c in itertools.product((20, 33), (20, 21, 33, 34, 100), (None, 8)):
        out.append(dict(part="patchnum", n=n, probe=probe, chunksize=c, seed=4))
    # the data-frame form of a draw: same points as the direct call from the same generator state, in either unit
    for win, attrs, degrees, n in itertools.product(("box", "scap", "wrap"), ("", "wz"), (True, False, None), (1, 6)):
        if win in WINDOWS:
            out.append(dict(part="dataframe", window=win, attrs=attrs, degrees=degrees, n=n))
    return out


def setup():
    yawx.sequential()
    import warnings

    warnings.simplefilter("ignore")


def make_gen(window, attrs, seed):
    from yaw.randoms import BoxRandoms

    kw = {}
    if "w" in attrs:
        kw["weights"] = 1.0 + np.arange(M)
    if "z" in attrs:
        kw["redshifts"] = 0.01 * (np.arange(M) + 1)
    return BoxRandoms(*WINDOWS[window], seed=seed, **kw)


def check_points(data, window, attrs, v, tag):
    ra0, ra1, d0, d1 = np.deg2rad(WINDOWS[window])
    ra, dec = data["ra"], data["dec"]
    eps = 1e-15
    if len(ra) and (ra.min() < ra0 - eps or ra.max() > ra1 + eps or dec.min() < d0 - eps or dec.max() > d1 + eps):
        v.append(dict(signature=f"C16/{tag}/outside-window/{window}",
                      what=f"points outside the {window} window: ra [{ra.min()}, {ra.max()}], dec [{dec.min()}, {dec.max()}]"))
    names = data.dtype.names
    if ("weights" in names) != ("w" in attrs) or ("redshifts" in names) != ("z" in attrs):
        v.append(dict(signature=f"C16/{tag}/columns", what=f"columns {names} for attributes {attrs!r}"))
        return
    if "w" in attrs:
        iw = np.rint(data["weights"] - 1.0).astype(int)
        if not np.array_equal(1.0 + iw, data["weights"]) or iw.min() < 0 or iw.max() >= M:
            v.append(dict(signature=f"C16/{tag}/weights-not-from-sample", what="weights are not values of the supplied sample"))
    if "z" in attrs:
        iz = np.rint(data["redshifts"] / 0.01 - 1).astype(int)
        if not np.allclose(0.01 * (iz + 1), data["redshifts"], rtol=1e-14) or iz.min() < 0 or iz.max() >= M:
            v.append(dict(signature=f"C16/{tag}/redshifts-not-from-sample", what="redshifts are not values of the supplied sample"))
    if attrs == "wz" and not v:
        if not np.array_equal(iw, iz):
            v.append(dict(signature=f"C16/{tag}/attributes-not-joint",
                          what=f"weights come from source rows {iw.tolist()} but redshifts from rows {iz.tolist()}"))


def catalog_records(cat):
    rows = [p.load_data() for p in cat.values()]
    return np.concatenate(rows)


def sort_rows(a):
    return np.sort(a, order=list(a.dtype.names))


def run_catalog(case):
    from yaw import AngularCoordinates, Catalog

    win, n, c, attrs, seed, W = (case[k] for k in ("window", "n", "chunksize", "attrs", "seed", "W"))
    ra0, ra1, d0, d1 = WINDOWS[win]
    centre = AngularCoordinates(np.deg2rad([[0.5 * (ra0 + ra1), 0.5 * (d0 + d1)]]))
    v = []

    def create(path):
        return Catalog.from_random(path, make_gen(win, attrs, seed), n, patch_centers=centre, chunksize=c)

    d = runner.fresh_dir("c16")
    try:
        if W == 1:
            data = catalog_records(create(d + "/a"))
        else:
            vmp.install(workers=W)
            try:
                outs = []

                def body():
                    dd = runner.fresh_dir("c16p")
                    rec = sort_rows(catalog_records(create(dd + "/a")))
                    outs.append(rec)
                    return rec.tobytes().hex()

                res = vmp.explore(body, focus=-1, max_exec=2000)
            finally:
                vmp.uninstall()
                yawx.sequential()
            bad = [k for k in res["outcomes"] if not k.startswith("('ok'")]
            if bad or len(res["outcomes"]) != 1:
                v.append(dict(signature="C16/catalog/parallel-schedule-dependent",
                              what=f"parallel random catalog depends on the schedule or fails: {len(res['outcomes'])} outcomes {bad[:1]}"))
            data = outs[0]
            seq = sort_rows(catalog_records(create(d + "/seq")))
            if not np.array_equal(seq, sort_rows(data)):
                v.append(dict(signature="C16/catalog/parallel-differs", what="W=2 random catalog differs from the W=1 one"))
    except Exception as e:
        return [dict(signature=f"C16/catalog/exception:{type(e).__name__}", what=f"from_random raised {yawx.exc_name(e)} ({case})")], True
    if len(data) != n:
        v.append(dict(signature="C16/catalog/size", what=f"{len(data)} points generated, {n} requested (chunksize {c})"))
    check_points(data, win, attrs, v, "catalog")
    # same seed, fresh generator, second creation: identical
    again = catalog_records(create(d + "/b"))
    if not np.array_equal(sort_rows(data), sort_rows(again)):
        v.append(dict(signature="C16/catalog/not-reproducible", what="two fresh generators with the same seed give different catalogs"))
    return v, bool(c is None or n % c != 0)


def observed_pass(reader):
    chunks = list(iter(reader))
    return np.concatenate(chunks) if chunks else None


def run_history(case):
    from yaw.catalog.readers import RandomReader

    n, c, seed, attrs = case["n"], case["chunksize"], case["seed"], case["attrs"]
    fresh = observed_pass(RandomReader(make_gen("box", attrs, seed), n, c))
    gen = make_gen("box", attrs, seed)
    reader = RandomReader(gen, n, c)
    for op in case["hist"]:
        if op == "call":
            gen(3)
        elif op == "probe":
            reader.get_probe(2)
        elif op == "pass":
            list(iter(reader))
        else:
            it = iter(reader)
            next(it)
    v = []
    if case.get("observe") == "probe":
        # the probe after prior use equals the probe of a fresh reader on a fresh generator
        want = RandomReader(make_gen("box", attrs, seed), n, c).get_probe(3)
        got = reader.get_probe(3)
        if len(got) != 3 or not np.array_equal(got, want):
            v.append(dict(signature="C16/history/probe-not-reproducible",
                          what=f"after prior use {case['hist']} get_probe no longer returns the points of a fresh "
                               f"generator with seed {seed}"))
        return v, True
    got = observed_pass(reader)
    if got is None or len(got) != n:
        v.append(dict(signature="C16/history/size", what=f"pass after history {case['hist']} yields "
                      f"{0 if got is None else len(got)} points, {n} requested"))
    elif not np.array_equal(got, fresh):
        v.append(dict(signature="C16/history/not-reproducible",
                      what=f"after prior use {case['hist']} the generator (seed {seed}) no longer reproduces the points "
                           f"of a fresh generator"))
    # a second reader on the same generator behaves like a fresh one as well
    got2 = observed_pass(RandomReader(gen, n, c))
    if not np.array_equal(got2, fresh):
        v.append(dict(signature="C16/history/second-reader", what="a second reader on a used generator differs from a fresh one"))
    return v, len(case["hist"]) > 0


def run_reseed(case):
    from yaw.catalog.readers import RandomReader

    s_from, s_to, via = case["s_from"], case["s_to"], case["via"]
    gen = make_gen("box", "wz", s_from)
    fresh = make_gen("box", "wz", s_to)
    v = []
    if via == "direct":
        gen(3)
        gen.reseed(s_to)
        got, want = gen(5), fresh(5)
    else:
        reader = RandomReader(gen, 5, 2)
        gen(3)
        gen.reseed(s_to)
        if via == "reader-pass":
            got, want = observed_pass(reader), observed_pass(RandomReader(fresh, 5, 2))
        else:
            got, want = reader.get_probe(4), RandomReader(fresh, 5, 2).get_probe(4)
    if got is None or len(got) != len(want) or not np.array_equal(got, want):
        v.append(dict(signature=f"C16/reseed/{via}",
                      what=f"generator created with seed {s_from} and reseeded to {s_to} does not reproduce the points of a "
                           f"fresh generator with seed {s_to} ({via})"))
    if via != "direct" and not v:
        # and it still does afterwards (the reader must not have put another seed back)
        gen.reseed()
        if not np.array_equal(gen(5), make_gen("box", "wz", s_to)(5)):
            v.append(dict(signature=f"C16/reseed/{via}/seed-changed-behind-the-back",
                          what=f"after use through a reader the generator no longer has the seed {s_to} it was reseeded to"))
    return v, s_from != s_to


def run_rows(case):
    """Joint attribute draws reach every source row: exact at the random-source seam (index range requested from the
    rng) and on the real generator with a fixed seed (300*m draws; a fixed, repeatable computation)."""
    from yaw.randoms import BoxRandoms

    m = case["m"]
    v = []
    kw = dict(weights=1.0 + np.arange(m), redshifts=0.01 * (np.arange(m) + 1))
    if "series" in case:
        import pandas as pd

        index = [3, 0, 6, 1, 5, 2, 4]
        for key in (("weights", "redshifts") if case["series"] == "both" else (case["series"],)):
            kw[key] = pd.Series(kw[key], index=index)
    if "nonfinite" in case:
        # undefined entries in different rows of the two arrays: whatever is done with them, a drawn (weight, redshift)
        # pair must be a row of the input (or the input is refused)
        bad = dict(nan=np.nan, inf=np.inf)[case["nonfinite"]]
        kw["weights"][2] = bad
        kw["redshifts"][5] = bad
        try:
            gen = BoxRandoms(*WINDOWS["box"], seed=12345, **kw)
            data = gen(300 * m)
        except Exception:
            return [], True  # refusing such input is fine
        rows = {(repr(float(a)), repr(float(b))) for a, b in zip(kw["weights"], kw["redshifts"])}
        drawn = {(repr(float(a)), repr(float(b))) for a, b in zip(data["weights"], data["redshifts"])}
        if not drawn <= rows:
            return [dict(signature="C16/rows/not-joint/nonfinite",
                         what=f"with {case['nonfinite']} in rows 2 (weights) and 5 (redshifts) pairs are drawn that are no row of "
                              f"the input: {sorted(drawn - rows)[:3]}")], True
        return [], True
    try:
        gen = BoxRandoms(*WINDOWS["box"], seed=12345, **kw)
        data = gen(300 * m)
    except Exception as e:
        return [dict(signature=f"C16/rows/exception:{type(e).__name__}", what=f"{m} attribute rows: {yawx.exc_name(e)}")], True
    rows = np.rint(data["weights"] - 1.0).astype(int)
    if not np.array_equal(np.rint(data["redshifts"] / 0.01).astype(int) - 1, rows):
        v.append(dict(signature="C16/rows/not-joint", what="weights and redshifts name different source rows"))
    missing = sorted(set(range(m)) - set(rows.tolist()))
    if missing or rows.min() < 0 or rows.max() >= m:
        v.append(dict(signature="C16/rows/unreachable-row",
                      what=f"source rows {missing} of {m} never appear in {300 * m} draws (seed 12345)"))
    stub = GridRng()
    gen.rng = stub
    gen(5)
    ints = [c for c in stub.calls if c[0] == "integers"]
    if ints and any((c[1], c[2]) != (0, m) for c in ints):
        v.append(dict(signature="C16/rows/index-range", what=f"row indices drawn from {[(c[1], c[2]) for c in ints]}, "
                      f"the source has rows [0, {m})"))
    return v, True


def run_probe(case):
    from yaw.catalog.readers import RandomReader

    n, c, size = case["n"], case["chunksize"], case["size"]
    reader = RandomReader(make_gen("box", case["attrs"], case["seed"]), n, c)
    v = []
    got = reader.get_probe(size)
    if len(got) != size:
        v.append(dict(signature="C16/probe/size", what=f"get_probe({size}) on a reader of {n} points with chunksize {c} "
                      f"returned {len(got)} points"))
    else:
        check_points(got, "box", case["attrs"], v, "probe")
        fresh = RandomReader(make_gen("box", case["attrs"], case["seed"]), n, c).get_probe(size)
        again = reader.get_probe(size)
        if not (np.array_equal(got, fresh) and np.array_equal(got, again)):
            v.append(dict(signature="C16/probe/not-reproducible", what="get_probe does not reproduce the same points"))
    return v, bool(c is not None and size > c)


class GridRng:
    """Stands in for the generator's numpy random source: every draw of n uniform variates returns an exact regular grid
    (odd draws ascending, even draws descending), through whichever method the library asks (uniform / random)."""

    def __init__(self):
        self.calls = []

    def _grid(self, n):
        u = (np.arange(int(n)) + 0.5) / int(n)
        return u[::-1] if len(self.calls) % 2 == 0 else u

    def uniform(self, low=0.0, high=1.0, size=None):
        self.calls.append(("uniform", low, high, size))
        return low + self._grid(size) * (high - low)

    def random(self, size=None, *a, **k):
        self.calls.append(("random", 0.0, 1.0, size))
        return self._grid(size)

    def integers(self, low, high=None, size=None, **k):
        if high is None:
            low, high = 0, low
        if k.get("endpoint"):
            high = high + 1
        self.calls.append(("integers", low, high, size))
        return low + (np.arange(size) * 3 + 1) % (high - low)


def run_uniform(case):
    win, n = case["window"], case["n"]
    gen = make_gen(win, "", 1)
    gen.rng = GridRng()
    pts = gen(n)  # the public draw; the coordinates come from two grids of uniform variates (in either arrangement)
    ra, dec = np.asarray(pts["ra"]), np.asarray(pts["dec"])
    ra0, ra1, d0, d1 = np.deg2rad(WINDOWS[win])
    u = (np.arange(n) + 0.5) / n
    v = []

    def linear(values, lo, hi):
        return any(np.allclose(values, lo + g * (hi - lo), rtol=0, atol=1e-14) for g in (u, u[::-1]))

    if not linear(ra, ra0, ra1):
        v.append(dict(signature=f"C16/uniform/ra-map/{win}", what="right ascension is not linear in the uniform variate"))
    if not linear(np.sin(dec), np.sin(d0), np.sin(d1)):
        v.append(dict(signature=f"C16/uniform/area-map/{win}",
                      what="sin(dec) is not linear in the uniform variate: points are not uniform in area"))
    return v, True


def run_dataframe(case):
    win, attrs, n = case["window"], case["attrs"], case["n"]
    kw = {} if case["degrees"] is None else dict(degrees=case["degrees"])
    in_degrees = case["degrees"] is not False  # the documented default is degrees
    want = make_gen(win, attrs, 99)(n)
    gen = make_gen(win, attrs, 99)
    df = gen.generate_dataframe(n, **kw)
    v = []
    if len(df) != n:
        v.append(dict(signature="C16/dataframe/length", what=f"{len(df)} rows for a draw of {n}"))
        return v, True
    names = set(df.columns)
    if names != set(want.dtype.names):
        v.append(dict(signature="C16/dataframe/columns", what=f"columns {sorted(names)}, the draw has {want.dtype.names}"))
        return v, True
    for col in want.dtype.names:
        expect = want[col]
        if col in ("ra", "dec") and in_degrees:
            expect = np.rad2deg(expect)
        got = np.asarray(df[col])
        if not np.allclose(got, expect, rtol=1e-14, atol=0):
            v.append(dict(signature=f"C16/dataframe/{col}/{'deg' if in_degrees else 'rad'}",
                          what=f"column {col} of generate_dataframe({n}, {kw}) is {got[:3]}, the same draw gives {expect[:3]}"))
    again = gen(n)
    after = make_gen(win, attrs, 99)
    after(n)
    if not np.array_equal(again, after(n)):
        v.append(dict(signature="C16/dataframe/stream", what="a data-frame draw does not advance the generator like a direct draw"))
    return v, True


def run_patchnum(case):
    from yaw import Catalog

    n, probe, c = case["n"], case["probe"], case["chunksize"]
    d = runner.fresh_dir("c16n")
    v = []
    try:
        cat = Catalog.from_random(d + "/a", make_gen("box", "wz", case["seed"]), n, patch_num=2, probe_size=probe, chunksize=c)
    except ValueError:
        if probe > n:
            return [], True  # refused: a probe larger than the catalog
        raise
    data = catalog_records(cat)
    if len(data) != n:
        v.append(dict(signature="C16/patchnum/size", what=f"{len(data)} points in the catalog, {n} requested (probe of {probe}, chunksize {c})"))
    check_points(data, "box", "wz", v, "patchnum")
    return v, True


def run_refrom(case):
    from yaw import AngularCoordinates, Catalog

    gen = make_gen("box", "wz", case["seed"])
    centre = AngularCoordinates(np.deg2rad([[30.0, 5.0]]))
    d = runner.fresh_dir("c16r")
    recs = []
    for r in range(case["reps"]):
        cat = Catalog.from_random(f"{d}/c{r}", gen, case["n"], patch_centers=centre, chunksize=case["chunksize"])
        recs.append(sort_rows(catalog_records(cat)))
    v = []
    if any(not np.array_equal(recs[0], r) for r in recs[1:]):
        v.append(dict(signature="C16/history/refrom-not-reproducible",
                      what="creating a second catalog from the same generator gives other points than the first"))
    return v, True


def run_case(case):
    fn = dict(patchnum=run_patchnum, dataframe=run_dataframe, catalog=run_catalog, history=run_history, uniform=run_uniform, refrom=run_refrom, probe=run_probe, rows=run_rows, reseed=run_reseed)[case["part"]]
    viols, nontrivial = fn(case)
    res = dict(nontrivial=bool(nontrivial), key=case)
    if viols:
        uniq = {}
        for x in viols:
            uniq.setdefault(x["signature"], x)
        res.update(status="violation", violations=list(uniq.values()))
    return res
